#!/usr/bin/env python3
"""Generates /verif/MANIFEST.json from the table below (single source of truth)."""
import json, os, subprocess

ROOT = os.path.dirname(os.path.dirname(os.path.abspath(__file__)))

# id -> (category, technique, level text, level note, design ref)
CHECKS = {
 "C01": ("exploration",
         "runtime monitor: capturing appenders + independent routing reference model over generated configurations",
         "Every (configuration, target, level) probe logs through the real Logger and the multiset of appenders that received the record is compared with a routing model re-implemented from the property statement; each configuration is built under three declaration orders. Held means: no disagreement on the probes executed (counts in the evidence). Routing has no schedule or crash dimension, so wide randomised exploration with an exact oracle is the right level.",
         "Trusted: the harness reference model (routing.rs), the log crate's Record builder. Names come from a small component alphabet, <=24 loggers, plus chains 100..3000 components deep.",
         "DESIGN.md §4 C01"),
 "C02": ("exploration",
         "runtime monitor: Log::enabled / max level / log! macro deliveries vs routing reference model; facade observed in child processes over reconfiguration histories",
         "In-process: Log::enabled and Logger::max_log_level compared with the reference model on generated configurations. Child processes (one per history, because the log facade is process-global): each init entry point followed by 5-30 Handle::set_config swaps that move the maximum up and down; after every step log::max_level(), log_enabled! and the deliveries of the real log! macros are compared with the model. Held = no disagreement on the observed histories.",
         "Trusted: routing reference model, the log crate's macros. STATIC_MAX_LEVEL is the default. init_raw_config/init_file are observed through file appenders (line counts).",
         "DESIGN.md §4 C02"),
 "C03": ("exploration",
         "runtime monitor: recording Filter/Append implementations + error-handler capture, expected call trace per appender from the statement",
         "Every Filter::filter, Append::append and error-handler call is recorded and compared with the trace the statement prescribes, per appender: exhaustive over all 121 Accept/Neutral/Reject chains up to length 4 (alone and between failing / healthy neighbours, all levels), all threshold x level pairs in three placements, plus random mixes with repeated attachments through a child logger.",
         "Trusted: harness filters/appenders. Chains longer than 4 only in the random part (<=4 too); more than 4 appenders per logger not exercised.",
         "DESIGN.md §4 C03"),
 "C13": ("exploration",
         "runtime monitor: reference well-formedness + error-set oracle over exhaustive logger names and generated builder inputs; built configs installed and probed",
         "build/build_lossy are run on every logger name over {a,b,:} up to length 6 and over {é,日,:} up to length 5, on names with colon runs up to 65538, and on generated builder inputs with duplicates, ill-formed names and dangling references; acceptance, the named errors (required subset, no innocent item), the lossy result (accessor view) and the routing of every returned Config (installed in a private Logger, probed under a panic trap) are compared with a reference model written from the statement.",
         "Trusted: reference model in c13.rs. Names with colon runs of even length >= 4 and dangling references inside rejected loggers are don't-care.",
         "DESIGN.md §4 C13"),
 "C09": ("exploration",
         "runtime monitor: AST-generated well-formed patterns rendered by an independent reference evaluator, compared with the captured bytes and style calls of the real encoder",
         "Patterns are generated from an AST (all formatters, both aliases, escapes in text and arguments, nesting, specs, dates, MDC), printed with random alias/escape choices and encoded for random records through a capturing encode::Write; text and style events must equal the reference renderer's output (default-format dates are parsed back and bracketed by the call). The grammar is recursive and unbounded, so sampled exploration with an exact oracle is the achievable level.",
         "Trusted: pattern_model.rs (printer + renderer), chrono's strftime for expected date text. Two grammar ambiguities are never generated (`))` inside an argument, empty `{x:}` spec before '<'/'>'). Both build profiles in both tiers ({D(..)} renders in dev, {R(..)} in release).",
         "DESIGN.md §4 C09"),
 "C10": ("exploration",
         "runtime monitor: reference pad(cut(text,M),m) law over generated specs/texts, each case encoded under four chunkings incl. short-write sinks that split code points",
         "Every generated (spec nest, text) case is encoded four times - whole writes, two random short-write sinks, message Display in pieces - and each output must be valid UTF-8, contain at most M scalars where maxima apply, and equal the reference law counted in Unicode scalar values.",
         "Trusted: pattern_model.rs. Widths from {0,1,2,3,5,8,13,40}; fills incl. multi-byte and syntax characters; nesting depth <= 3.",
         "DESIGN.md §4 C10"),
 "C11": ("exploration",
         "runtime monitor: panic trap around PatternEncoder::new and encode over exhaustive syntax-alphabet strings, edits of valid patterns and a malformed-tail catalogue with an {ERROR} oracle",
         "Exhaustive over two 12-symbol alphabets up to length 6/5 (quick) or 7/6 (thorough), plus single edits of generated valid patterns, random Unicode strings, and well-formed-prefix + malformed-tail compositions whose output must start with the prefix's reference rendering and then show {ERROR: or return Err. No panic is tolerated anywhere.",
         "Trusted: panic hook capture; reference renderer for the prefix. encode() skipped only for representable explicit widths in (10^6, 2^64). Both build profiles in both tiers (overflow checks on / off).",
         "DESIGN.md §4 C11"),
 "C12": ("exploration",
         "runtime monitor: own RFC 8259 parser (serde_json as second opinion) over the captured line of hostile generated records, field-by-field round-trip oracle",
         "Each generated record (hostile strings in every text field and MDC, long unescaped runs across buffer sizes, optional fields absent, named/unnamed threads, short-write sinks) is encoded and the single line is parsed back with an independent parser and compared field by field, including omission of absent optional fields and the MDC map.",
         "Trusted: the harness JSON parser, chrono RFC 3339 parsing for the time bracket. 'Control character' = U+0000..U+001F.",
         "DESIGN.md §4 C12"),
 "C04": ("exploration",
         "runtime monitor: self-describing record frames + client-boundary event log + stream oracle; file re-read by an independent reader after every append; concurrent stress with race-amplifier hook (Miri seeds in thorough)",
         "Single-threaded histories read the file back after every single append (visibility at return, exact content, both open modes, reopen). Concurrent runs log every append with invocation/return stamps from one atomic counter and check the final file with the stream oracle (whole frames, none lost or duplicated, per-thread and real-time order) and each thread looks up its own record right after append returned. Schedules are sampled (stress + amplifier hook), not enumerated.",
         "Trusted: frames.rs (frame format, parser, oracle). A record larger than the 1 KiB buffer may legitimately be written in several write(2) calls, so the file is only judged at return points.",
         "DESIGN.md §4 C04"),
 "C05": ("exploration",
         "runtime monitor: exact directory model after every operation (single-threaded) driven by trigger decisions recorded at the Trigger boundary + stream oracle over archives and active file (concurrent)",
         "Histories mix appends sized around limit/buffer, empty records and restarts over size / on-start-up / time (driven clock) / scripted pre- and post-processing triggers and delete / fixed-window rollers (plain, gz, zst), built through the builder API or from a config document; after every operation the whole directory must equal the model. Concurrent runs are judged with the order-free stream oracle (only whole oldest files may be gone).",
         "Trusted: window model, frames.rs. Histories are short (<= a few hundred records). A build with log4rs' background_rotation feature runs the stream oracle in both tiers; overlapping appenders on one path are observed after every append.",
         "DESIGN.md §4 C05"),
 "C06": ("exploration",
         "runtime monitor: recording wrapper at the Trigger boundary comparing LogFile::len_estimate() with fs::metadata().len() at every policy consultation, plus exact directory model",
         "At every consultation the size shown to the policy must equal the true on-disk size and the real SizeTrigger's answer must equal (size > N); after every append the active file holds at most N bytes or is gone. Limits, record sizes and pre-existing sizes are chosen on the boundaries (N-1, N, N+1; 1023/1024/1025; 0).",
         "Trusted: the wrapper sees exactly the LogFile the policy sees. Histories <= 60 operations.",
         "DESIGN.md §4 C06"),
 "C07": ("exploration",
         "runtime monitor: recursive directory snapshots (bytes, inode, mtime) before/after every Roll::roll call compared with a window model; inotify event log of every roll; strict decompression",
         "Roll::roll is called directly with generated bases, counts, patterns (index in name / directory / repeated / $ENV / gz / zst), initial directory states (gaps, archives beyond the window, look-alike bystanders) and contents; after every roll the managed names must hold exactly the window model and everything else must be byte-, inode- and mtime-identical.",
         "Trusted: window model; flate2 MultiGzDecoder / zstd decode_all as strict decoders. Events on files that existed before a roll and are not managed names are violations (inotify); scratch files that are gone after the call are counted, not judged. Rolled file on another mount in an eighth of the cases; relative patterns in a sequential part.",
         "DESIGN.md §4 C07"),
 "C17": ("exploration",
         "runtime monitor: per-append rotation count from the exact directory model compared with the statement; barrier-released concurrent first appends with amplifier hook",
         "For every (min_size, start-up size, open mode) combination around the boundary the monitor observes during which append a rotation happens and what the newest archive holds; concurrent first appends from 2-16 threads are judged after join.",
         "Trusted: directory model. Thread schedules are sampled; Miri seeds in thorough.",
         "DESIGN.md §4 C17"),
 "C08": ("fault_enumeration",
         "runtime fault injection at verif_hooks points inside rotate(): crash images (directory copies) and planted filesystem obstacles at every step of every rotation, judged by the stream oracle and a retained-chunk check; real abort()ing children validate the images (thorough); a failed rotation followed by more against a background_rotation build, appends watched by a watchdog",
         "For every generated history, every hook point (each archive shift and the final move/compress) of every rotation is used once as the point of process death and once as the point of a filesystem fault, with both continuations (same appender / restarted appender). The append must return Err without panicking; no acknowledged record may be lost at the fault, with the obstacle in place, or after recovery; rotation must work again once the obstruction is gone.",
         "Exhaustive over the hook points of each history; histories (window 1-4, base 0/1, both open modes, pre/post triggers) are sampled. Faults are non-empty directories at a step's destination; EIO/ENOSPC and power loss are not modelled.",
         "DESIGN.md §4 C08"),
 "C19": ("exploration",
         "runtime monitor: location of the file actually created by FileAppender::build / RollingFileAppender::build / FixedWindowRoller::roll compared with a single-pass reference expansion",
         "Path strings are assembled from literal text, stray syntax characters, well-formed references to set / unset / empty variables, malformed references and strings where a substitution creates reference-looking text; the created file or the whole archive window (count+1 rolls) must sit exactly at the reference expansion.",
         "Trusted: reference expander in c19.rs. Environment is set once before any worker thread starts. Values are '$'-free; '{}' in roller inputs is skipped.",
         "DESIGN.md §4 C19"),
 "C20": ("exploration",
         "runtime monitor: serde_yaml / serde_json deserialisation of the real config structs under a panic trap, compared with 128-bit reference arithmetic; small limits observed behaviourally",
         "Literals are generated on the overflow boundaries (2^64/1024^k, 2^63), in every unit and letter case, with 0-3 spaces or a tab, in string and integer scalar form, plus negative, fractional, junk and near-miss units; the parsed value (from the Debug rendering) or the rejection must match the reference.",
         "Trusted: 128-bit reference arithmetic; Debug rendering of SizeTriggerConfig / TimeTriggerConfig. Outer whitespace and integer refresh_rate are don't-care.",
         "DESIGN.md §4 C20"),
 "C16": ("exploration",
         "runtime monitor: schedule function and driven-clock histories of the real TimeTrigger (verif_hooks clock) compared with an independent calendar model, per time zone in child processes, under a panic trap",
         "For 11 zones (fixed offsets, northern/southern DST, 30-minute DST, midnight transitions, POSIX TZ strings) the schedule function is called on boundary grids, on every (k-th) second within 2 h of every offset change of 2023-2025, on random instants and with absurd multipliers; the result must be strictly in the future, never panic, and equal the calendar model's boundary whenever the zone's offset is constant in between. Histories drive a real rolling appender on a controlled clock and check firing instant, placement of the firing record and rescheduling.",
         "Trusted: calendar.rs (own Gregorian/ISO-week arithmetic), chrono for the UTC offset of a zone at an instant, tzdata of the image (POSIX strings as fallback). Zones outside the list and n > 1000 (except the overflow catalogue) are not explored.",
         "DESIGN.md §4 C16"),
 "C18": ("exploration",
         "runtime monitor: bytes captured from child processes whose target stream is a real pty or a pipe under a controlled environment, compared with the statement's policy; all 243 styles and generated highlight patterns through the real AnsiWriter",
         "The 27 x 2 x 2 x 2 = 216-cell matrix (NO_COLOR / CLICOLOR / CLICOLOR_FORCE x pty-or-pipe x stdout-or-stderr x tty_only) is enumerated completely with a real ConsoleAppender in a child process; the bytes on the target stream and on the other stream must equal the policy's prediction (write or silent, SGR or none, reset after every highlighted group incl. truncated and right-aligned ones). All 243 styles must yield exactly the one well-formed SGR sequence. Random highlight patterns are checked byte for byte through AnsiWriter.",
         "Trusted: pty allocation via libc (posix_openpt), reference renderer. Windows console path not exercised. 'Set' = present and != \"0\".",
         "DESIGN.md §4 C18"),
 "C15": ("exploration",
         "runtime monitor: generation-tagged capturing appenders + (invocation, return) stamps from one atomic counter, offline register-linearizability check of the configuration each record was routed under; re-entrant swap appender; reloader stepped on logical time through the verif_hooks API with construction counters",
         "Stress: up to 6 logging and 2 reconfiguring threads on one Logger; every record's deliveries must carry a single generation, equal the routing model of exactly that generation (shapes with different table sizes and levels), and that generation must be admissible w.r.t. the stamped set_config calls. Re-entrancy at every fan-out position. Reloader: edit histories (valid / unchanged / touch / syntax error / unknown key / deletion / rate change or removal) with exact expectations on result, construction count and routing after each poll; thorough adds the real init_file + reloader thread end to end and Miri seeds.",
         "Trusted: routing model; stamps are taken at the client boundary. Schedules are sampled by stress volume; the two-load window inside Logger::log cannot be widened by a hook.",
         "DESIGN.md §4 C15"),
 "C14": ("exploration",
         "runtime monitor: logical configurations rendered to YAML / JSON / TOML by independent serializers, loaded with load_config_file and driven; accessor view, component Debug fingerprints and written files compared with the document, across formats and with the programmatic build; injected defects checked against strict and lossy pipelines under a panic trap",
         "Every generated logical configuration is loaded in four file flavours and built programmatically; each resulting Logger is driven with the same probe set over pre-populated files so that defaults (additive, append, encoder kind and pattern, policy kind, base, min_size) and rolling policies (exact file layout) are observed behaviourally. 26 kinds of injected defects (unknown keys in all eight sections, wrong types, unknown kinds, missing fields, broken filters among valid siblings, dangling names, degenerate numbers) must be rejected by the strict pipeline and reported + dropped by the lossy one while the rest keeps working; nothing may panic.",
         "Trusted: serde_yaml / serde_json / toml serializers as emitters, routing model, line parsers for the fixed encoder patterns. Syntax features the serializers never emit are not exercised.",
         "DESIGN.md §4 C14"),
}

NOT_YET = {}

def main():
    repo_commits = subprocess.run(["git", "-C", "/repo", "log", "--format=%H %s"], capture_output=True, text=True).stdout.splitlines()
    hook_commits = [l.split()[0] for l in repo_commits if l.split(" ", 1)[1].startswith("verif hooks")]
    props = [json.loads(l)["id"] for l in open(os.path.join(ROOT, "properties.jsonl"))]
    checks = []
    for pid in props:
        if pid not in CHECKS:
            continue
        cat, tech, text, note, ref = CHECKS[pid]
        checks.append({
            "property_id": pid,
            "quick_cmd": f"./check {pid} quick",
            "thorough_cmd": f"./check {pid} thorough",
            "evidence_file": f"/verif/evidence/{pid}.json",
            "replay_cmd_template": "./check --replay {path}",
            "engine": "l4v",
            "level_claimed": {"category": cat, "text": text, "design_ref": ref},
            "level_note": note,
            "technique": tech,
        })
    na = [{"property_id": p, "reason": NOT_YET.get(p, "monitor not built yet in this session (work in progress; see DESIGN.md §4 for the planned runtime monitor)")}
          for p in props if p not in CHECKS]
    m = {
        "version": 1,
        "setup_cmd": "./setup.sh",
        "hooks": {
            "guard": "cargo feature `verif_hooks` of log4rs (off by default)",
            "enable": "the harness crate depends on log4rs = { path = \"/repo\", features = [..., \"verif_hooks\"] }; ./check rebuilds it from /repo's working tree with cargo on every invocation",
            "baseline_off_cmd": "cd /repo && cargo test --workspace --no-fail-fast --offline",
            "source_commits": list(reversed(hook_commits)),
            "add_only": True,
        },
        "engines": [{
            "name": "l4v",
            "path": "/verif/harness",
            "serves_properties": [c["property_id"] for c in checks],
            "kind_free_text": "Rust harness linking the real log4rs from /repo: workload generators, reference-model oracles over recorded events, invariant checks at verif_hooks points, panic traps, child processes on ptys/pipes, inotify event logs, Miri runs of the same monitors; every check runs its workload in a dev-profile and in a release-profile build",
        }],
        "checks": checks,
        "not_applicable": na,
        "notes": "Technique family: runtime monitoring and sanitizers. Exit codes of every command: 0 held on everything observed, 1 VIOLATION (replay file written under /verif/replays), 2 inconclusive (never a VIOLATION line). Known genuine defects are listed in /verif/KNOWN_FINDINGS.json.",
    }
    if not na:
        m["not_applicable"] = []
    json.dump(m, open(os.path.join(ROOT, "MANIFEST.json"), "w"), indent=1)
    print("wrote MANIFEST.json with", len(checks), "checks;", len(na), "not claimed")

if __name__ == "__main__":
    main()
