#!/usr/bin/env python3
"""Generates /verif/MANIFEST.json from the table below (single source of truth)."""
import json, os, subprocess

ROOT = os.path.dirname(os.path.dirname(os.path.abspath(__file__)))

# id -> (category, technique, level text, level note, design ref)
CHECKS = {
 "C01": ("exploration",
         "runtime monitor: capturing appenders + independent routing reference model over generated configurations",
         "Every (configuration, target, level) probe logs through the real Logger and the multiset of appenders that received the record is compared with a routing model re-implemented from the property statement; each configuration is built under three declaration orders. Held means: no disagreement on the probes executed (counts in the evidence). Routing has no schedule or crash dimension, so wide randomised exploration with an exact oracle is the right level.",
         "Trusted: the harness reference model (routing.rs), the log crate's Record builder. Names come from a small component alphabet; <=24 loggers.",
         "DESIGN.md §4 C01"),
}

NOT_YET = {}

def main():
    repo_commits = subprocess.run(["git", "-C", "/repo", "log", "--format=%H %s"], capture_output=True, text=True).stdout.splitlines()
    hook_commits = [l.split()[0] for l in repo_commits if l.split(" ", 1)[1].startswith("verif hooks")]
    props = [json.loads(l)["id"] for l in open(os.path.join(ROOT, "properties.jsonl"))]
    checks = []
    for pid in props:
        if pid not in CHECKS:
            continue
        cat, tech, text, note, ref = CHECKS[pid]
        checks.append({
            "property_id": pid,
            "quick_cmd": f"./check {pid} quick",
            "thorough_cmd": f"./check {pid} thorough",
            "evidence_file": f"/verif/evidence/{pid}.json",
            "replay_cmd_template": "./check --replay {path}",
            "engine": "l4v",
            "level_claimed": {"category": cat, "text": text, "design_ref": ref},
            "level_note": note,
            "technique": tech,
        })
    na = [{"property_id": p, "reason": NOT_YET.get(p, "monitor not built yet in this session (work in progress; see DESIGN.md §4 for the planned runtime monitor)")}
          for p in props if p not in CHECKS]
    m = {
        "version": 1,
        "setup_cmd": "./setup.sh",
        "hooks": {
            "guard": "cargo feature `verif_hooks` of log4rs (off by default)",
            "enable": "the harness crate depends on log4rs = { path = \"/repo\", features = [..., \"verif_hooks\"] }; ./check rebuilds it from /repo's working tree with cargo on every invocation",
            "baseline_off_cmd": "cd /repo && cargo test --workspace --no-fail-fast --offline",
            "source_commits": list(reversed(hook_commits)),
            "add_only": True,
        },
        "engines": [{
            "name": "l4v",
            "path": "/verif/harness",
            "serves_properties": [c["property_id"] for c in checks],
            "kind_free_text": "Rust harness linking the real log4rs from /repo: workload generators, reference-model oracles over recorded events, invariant checks at verif_hooks points, panic traps, child processes on ptys/pipes, Miri runs of the same monitors",
        }],
        "checks": checks,
        "not_applicable": na,
        "notes": "Technique family: runtime monitoring and sanitizers. Exit codes of every command: 0 held on everything observed, 1 VIOLATION (replay file written under /verif/replays), 2 inconclusive (never a VIOLATION line). Known genuine defects are listed in /verif/KNOWN_FINDINGS.json.",
    }
    if not na:
        m["not_applicable"] = []
    json.dump(m, open(os.path.join(ROOT, "MANIFEST.json"), "w"), indent=1)
    print("wrote MANIFEST.json with", len(checks), "checks;", len(na), "not claimed")

if __name__ == "__main__":
    main()
