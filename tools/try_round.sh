#!/bin/bash
# Tries every seeded change of one round (tag r4, r5, ...) against the quick check of its property.
# usage: tools/try_round.sh <tag> [Cxx ...]
TAG="$1"; shift
PROPS="${*:-C01 C02 C03 C04 C05 C06 C07 C08 C09 C10 C11 C12 C13 C14 C15 C16 C17 C18 C19 C20}"
cd /verif
for p in $PROPS; do for m in 1 2 3; do id=$p-${TAG}m$m; [ -d seeded/$id ] || continue
  out=$(tools/try_mutation.sh seeded/$id/patch.diff $p quick 2>/dev/null)
  echo "$id $(echo "$out" | grep -o 'exit=[0-9]*' | tail -1) $(echo "$out" | grep -o 'signature=[^ ]*' | sed 's/signature=//' | sort -u | tr '\n' ' ' | cut -c1-160)"
done; done
