#!/bin/bash
# Confirms a sub-agent's seeded change in its scratch worktree and files it under /verif/seeded.
# usage: tools/confirm_mutation.sh <Cxx> <m1|m2> [extra cargo test args for the demo, e.g. --features gzip]
set -u
ID="$1"; M="$2"; shift; shift
WT="${WT:-/tmp/mut/$ID}"; OUT="$WT/_out"; TAG="${TAG:-}"
NAME="seeded_${ID}_${TAG}${M}"
cd "$WT" || exit 2
export CARGO_NET_OFFLINE=true
git checkout -q -- src 2>/dev/null
rm -f tests/${NAME}.rs
[ -f "$OUT/$M.diff" ] || { echo "no diff"; exit 2; }
cp "$OUT/${M}_demo.rs" tests/${NAME}.rs
echo "== demo on the clean tree (must pass)"
cargo test --offline --test ${NAME} "$@" >/tmp/mut/${NAME}.clean.log 2>&1; CLEAN=$?
tail -3 /tmp/mut/${NAME}.clean.log
git apply "$OUT/$M.diff" || { echo "patch does not apply"; rm -f tests/${NAME}.rs; exit 2; }
echo "== build with all features"
cargo build --offline --features gzip,zstd,json_format,toml_format,verif_hooks 2>&1 | grep -E "^error|Finished"
echo "== demo with the change (must fail)"
cargo test --offline --test ${NAME} "$@" >/tmp/mut/${NAME}.mut.log 2>&1; MUT=$?
grep -E "^test result|panicked" /tmp/mut/${NAME}.mut.log | head -5
rm -f tests/${NAME}.rs
echo "== existing suite with the change"
cargo test --workspace --no-fail-fast --offline 2>&1 | grep -E "^test result|FAILED" > /tmp/mut/${NAME}.suite.log
cat /tmp/mut/${NAME}.suite.log
git checkout -q -- src
SUITE_OK=0
grep -q "54 passed; 1 failed" /tmp/mut/${NAME}.suite.log && [ "$(grep -c 'FAILED' /tmp/mut/${NAME}.suite.log)" = "2" ] && SUITE_OK=1
echo "clean_demo_exit=$CLEAN mutated_demo_exit=$MUT suite_ok=$SUITE_OK"
if [ $CLEAN -eq 0 ] && [ $MUT -ne 0 ] && [ $SUITE_OK -eq 1 ]; then
  D="/verif/seeded/${ID}-${TAG}${M}"; mkdir -p "$D"
  cp "$OUT/$M.diff" "$D/patch.diff"; cp "$OUT/${M}_demo.rs" "$D/demo.rs"
  python3 - "$OUT/${M}_meta.json" "$D/meta.json" "$ID" "$*" <<'PY'
import json,sys
try: m=json.load(open(sys.argv[1]))
except Exception as e: m={"note":"agent meta unreadable: %s"%e}
out={"breaks_property":sys.argv[3],"source":"independent sub-agent given only the property text and a scratch worktree",
 "title":m.get("title"),"what_changed":m.get("what_changed"),"why_it_breaks":m.get("why_it_breaks"),
 "needs_to_manifest":m.get("needs_to_manifest"),
 "confirmed_by_me":{"worktree":"scratch worktree of /repo under /tmp/mut (removed afterwards)",
   "demo_cmd":"cp demo.rs tests/x.rs && cargo test --offline --test x "+sys.argv[4],
   "demo_on_clean_tree":"passes","demo_with_patch":"fails",
   "existing_suite_with_patch":"54 lib passed + 1 pre-existing failure (expand_env_vars_tests), integration and doc tests pass",
   "builds_with":"default features and gzip,zstd,json_format,toml_format,verif_hooks"},
 "detected_by":"(filled in by tools/try_mutation.sh results; see DESIGN.md §9)"}
json.dump(out,open(sys.argv[2],"w"),indent=1)
PY
  echo "CONFIRMED -> $D"
else
  echo "NOT CONFIRMED"
fi
