#!/bin/bash
# Runs every seeded change under /verif/seeded against the quick check of the property it breaks
# (and optionally a second property given in meta.json "also_check") and writes seeded/RESULTS.md.
# /repo is restored after each patch.
# ONLY=<glob> (e.g. ONLY='*-r8m*') re-runs just the matching directories and replaces/appends their rows.
set -u
cd /verif
OUT=seeded/RESULTS.md
echo "| seeded change | property | check | exit | signatures reported |" > $OUT.tmp
echo "|---|---|---|---|---|" >> $OUT.tmp
ONLY="${ONLY:-}"
for d in seeded/*/; do
  id=$(basename "$d")
  if [ -n "$ONLY" ]; then case "$id" in $ONLY) ;; *) continue;; esac; fi
  prop=${id%%-*}
  case "$prop" in C[0-9][0-9]) ;; *) prop=$(python3 -c "import json;print(json.load(open('$d/meta.json'))['breaks_property'])");; esac
  other=$(python3 -c "import json;print(json.load(open('$d/meta.json')).get('check_with',''))" 2>/dev/null)
  [ -n "$other" ] && prop="$other"
  nj=$(python3 -c "import json;print(json.load(open('$d/meta.json')).get('not_judged','')[:60])" 2>/dev/null)
  if [ -n "$nj" ]; then echo "| $id | $prop | - | - | not judged: see meta.json and DESIGN.md §10 |" >> $OUT.tmp; echo "$id not-judged"; continue; fi
  patch="$d/patch.diff"; [ -f "$d/patch_ported.diff" ] && patch="$d/patch_ported.diff"
  [ -f "$patch" ] || continue
  tier="${1:-quick}"
  res=$(tools/try_mutation.sh "$patch" "$prop" "$tier" 2>/dev/null)
  ex=$(echo "$res" | grep -o "exit=[0-9]*" | tail -1)
  sigs=$(echo "$res" | grep -o "signature=[^ ]*" | sed 's/signature=//' | sort -u | tr '\n' ' ')
  [ -z "$sigs" ] && sigs=$(echo "$res" | grep -E "INCONCLUSIVE|does not apply" | head -1)
  echo "| $id | $prop | $tier | ${ex#exit=} | $sigs |" >> $OUT.tmp
  echo "$id $prop $ex $sigs"
done
if [ -n "$ONLY" ]; then
  # keep the rows of the directories that were not re-run, replace the others, keep the order by id
  python3 - "$OUT" "$OUT.tmp" <<'PY'
import sys
old=open(sys.argv[1]).read().splitlines(); new=open(sys.argv[2]).read().splitlines()
rows={}
for l in old[2:]+new[2:]:
    if l.startswith("| "): rows[l.split("|")[1].strip()]=l
open(sys.argv[1],"w").write("\n".join(old[:2]+[rows[k] for k in sorted(rows)])+"\n")
PY
  rm -f $OUT.tmp
else
  mv $OUT.tmp $OUT
fi
