#!/bin/bash
# Runs every seeded change under /verif/seeded against the quick check of the property it breaks
# (and optionally a second property given in meta.json "also_check") and writes seeded/RESULTS.md.
# /repo is restored after each patch.
set -u
cd /verif
OUT=seeded/RESULTS.md
echo "| seeded change | property | check | exit | signatures reported |" > $OUT.tmp
echo "|---|---|---|---|---|" >> $OUT.tmp
for d in seeded/*/; do
  id=$(basename "$d")
  prop=${id%%-*}
  case "$prop" in C[0-9][0-9]) ;; *) prop=$(python3 -c "import json;print(json.load(open('$d/meta.json'))['breaks_property'])");; esac
  other=$(python3 -c "import json;print(json.load(open('$d/meta.json')).get('check_with',''))" 2>/dev/null)
  [ -n "$other" ] && prop="$other"
  nj=$(python3 -c "import json;print(json.load(open('$d/meta.json')).get('not_judged','')[:60])" 2>/dev/null)
  if [ -n "$nj" ]; then echo "| $id | $prop | - | - | not judged: see meta.json and DESIGN.md §10 |" >> $OUT.tmp; echo "$id not-judged"; continue; fi
  patch="$d/patch.diff"; [ -f "$d/patch_ported.diff" ] && patch="$d/patch_ported.diff"
  [ -f "$patch" ] || continue
  tier="${1:-quick}"
  res=$(tools/try_mutation.sh "$patch" "$prop" "$tier" 2>/dev/null)
  ex=$(echo "$res" | grep -o "exit=[0-9]*" | tail -1)
  sigs=$(echo "$res" | grep -o "signature=[^ ]*" | sed 's/signature=//' | sort -u | tr '\n' ' ')
  [ -z "$sigs" ] && sigs=$(echo "$res" | grep -E "INCONCLUSIVE|does not apply" | head -1)
  echo "| $id | $prop | $tier | ${ex#exit=} | $sigs |" >> $OUT.tmp
  echo "$id $prop $ex $sigs"
done
mv $OUT.tmp $OUT
