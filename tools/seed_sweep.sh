#!/bin/bash
# Runs every check's quick tier at many seeds on the unchanged tree and prints anything that is not "held".
# usage: tools/seed_sweep.sh <first-seed> <count> [tier]
cd "$(dirname "$0")/.."
FIRST=${1:-100}; N=${2:-20}; TIER=${3:-quick}
for ((s=FIRST; s<FIRST+N; s++)); do
  for p in C01 C02 C03 C04 C05 C06 C07 C08 C09 C10 C11 C12 C13 C14 C15 C16 C17 C18 C19 C20; do
    out=$(VERIF_SEED=$s L4V_NO_EVIDENCE=1 ./check $p $TIER 2>&1)
    echo "$out" | grep -E "VIOLATION|INCONCLUSIVE" | sed "s/^/seed=$s /"
  done
  echo "seed $s done"
done
echo SWEEP-FINISHED
