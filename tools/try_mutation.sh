#!/bin/bash
# Applies a seeded patch to /repo, runs one check, and always restores /repo.
# usage: tools/try_mutation.sh <patch.diff> <Cxx> [quick|thorough]
set -u
P="$(readlink -f "$1")"; ID="$2"; TIER="${3:-quick}"
cd /repo || exit 2
if [ -n "$(git status --porcelain -- src Cargo.toml)" ]; then echo "/repo is dirty; refusing"; exit 2; fi
git apply "$P" || { echo "patch does not apply"; exit 2; }
trap 'git -C /repo checkout -q -- . ' EXIT
cd /verif
L4V_NO_EVIDENCE=1 ./check "$ID" "$TIER" 2>&1 | grep -E "verdict=|VIOLATION|KNOWN-FINDING|INCONCLUSIVE|cargo build failed|^error" | head -12
echo "exit=${PIPESTATUS[0]}"
