#!/bin/bash
# Confirms and evaluates the mutations a round-2 sub-agent left in /tmp/mut/R2<Cxx>/_out.
# usage: tools/process_round.sh <Cxx> [R2|R3]
set -u
ID="$1"; RND="${2:-R2}"; TAGL=$(echo "$RND" | tr A-Z a-z); WTD="/tmp/mut/$RND$ID"
cd /verif
for m in m1 m2 m3; do
  [ -f "$WTD/_out/$m.diff" ] || { echo "$ID $m: no diff"; continue; }
  feats=$(python3 - "$WTD/_out/${m}_meta.json" <<'PY'
import json,sys,re
try:
    m=json.load(open(sys.argv[1])); c=m.get("demo_cmd","")
    r=re.search(r"--features[ =](\S+)",c); print(("--release " if "--release" in c else "")+("--features "+r.group(1).strip('"\'') if r else ""))
except Exception: print("")
PY
)
  res=$(WT="$WTD" TAG=$TAGL tools/confirm_mutation.sh "$ID" "$m" $feats 2>&1 | tail -2 | tr '\n' ' ')
  echo "$ID $m confirm: $res"
  if [ -d "seeded/$ID-$TAGL$m" ] && [ -z "${SKIP_TRY:-}" ]; then
    out=$(tools/try_mutation.sh "seeded/$ID-$TAGL$m/patch.diff" "$ID" quick 2>/dev/null)
    echo "$ID $m check: $(echo "$out" | grep -o 'exit=[0-9]*' | tail -1) $(echo "$out" | grep -o 'signature=[^ ]*' | sed 's/signature=//' | sort -u | tr '\n' ' ' | cut -c1-300)"
    python3 - "seeded/$ID-$TAGL$m/meta.json" "$WTD/_out/${m}_meta.json" <<'PY'
import json,sys
m=json.load(open(sys.argv[1]))
try:
    a=json.load(open(sys.argv[2]))
    for k in ("title","what_changed","why_it_breaks","needs_to_manifest"):
        if not m.get(k): m[k]=a.get(k)
except Exception: pass
json.dump(m,open(sys.argv[1],"w"),indent=1,ensure_ascii=False)
PY
  fi
done
