#!/bin/bash
# setup_cmd: build the harness offline from files on disk.
# The debug build is what every quick check needs; the other builds only save time for thorough tiers
# (./check builds them on demand anyway), so their failure is not fatal.
set -e
cd "$(dirname "$0")/harness"
export CARGO_NET_OFFLINE=true
[ -f Cargo.lock ] || cp /repo/Cargo.lock Cargo.lock
if ! cargo build --quiet 2>/tmp/l4v-setup.log; then
  grep -E "^error" -A8 /tmp/l4v-setup.log | head -60
  exit 1
fi
rm -f /tmp/l4v-setup.log
if [ "${L4V_SETUP_FULL:-1}" = "1" ]; then
  cargo build --quiet --release 2>/dev/null || echo "note: release build failed (thorough C09-C11 will retry)"
  cargo build --quiet --features bgrot --target-dir target-bg 2>/dev/null || echo "note: background_rotation build failed (thorough C05 will retry)"
  CARGO_TARGET_DIR=target-miri MIRIFLAGS="-Zmiri-disable-isolation -Zmiri-permissive-provenance" \
    cargo +nightly miri run --quiet --no-default-features -- miri C17 1 >/dev/null 2>&1 || echo "note: Miri warm-up failed (thorough C04/C05/C15/C17 will report it)"
fi
echo "setup ok"
