#!/bin/bash
# setup_cmd: build the harness offline from files on disk.
set -e
cd "$(dirname "$0")/harness"
export CARGO_NET_OFFLINE=true
[ -f Cargo.lock ] || cp /repo/Cargo.lock Cargo.lock
cargo build --quiet 2>&1 | grep -E "^error" -A8 || true
cargo build --quiet
echo "setup ok"
