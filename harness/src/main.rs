use l4v::report::Report;

fn usage() -> ! {
    eprintln!("usage: l4v run <Cxx> <quick|thorough> [--seed N] [--only label:index]\n       l4v replay <file>\n       l4v child <mode> ...");
    std::process::exit(2)
}

fn main() {
    let args: Vec<String> = std::env::args().collect();
    if args.len() < 2 {
        usage();
    }
    match args[1].as_str() {
        "run" => {
            if args.len() < 4 {
                usage();
            }
            let prop = args[2].clone();
            let tier = args[3].clone();
            let mut seed: u64 = std::env::var("VERIF_SEED")
                .ok()
                .and_then(|s| s.trim().parse::<i64>().ok())
                .map(|v| v as u64)
                .unwrap_or(20261003);
            let mut only = None;
            let mut i = 4;
            while i < args.len() {
                match args[i].as_str() {
                    "--seed" => {
                        seed = args[i + 1].parse::<i64>().map(|v| v as u64).unwrap_or(seed);
                        i += 2;
                    }
                    "--only" => {
                        let (l, n) = args[i + 1].rsplit_once(':').unwrap_or_else(|| usage());
                        only = Some((l.to_owned(), n.parse().unwrap_or_else(|_| usage())));
                        i += 2;
                    }
                    _ => usage(),
                }
            }
            std::process::exit(l4v::dispatch(&prop, &tier, seed, only));
        }
        "replay" => {
            let s = std::fs::read_to_string(&args[2]).expect("cannot read replay file");
            let v: serde_json::Value = serde_json::from_str(&s).expect("replay file is not JSON");
            let prop = v["property"].as_str().unwrap().to_owned();
            let tier = v["tier"].as_str().unwrap().to_owned();
            let seed = v["seed"].as_u64().unwrap();
            let case = &v["detail"]["case"];
            let only = match (case["label"].as_str(), case["index"].as_u64()) {
                (Some(l), Some(i)) => Some((l.to_owned(), i)),
                _ => None,
            };
            println!("replaying {} {} seed={} case={:?}", prop, tier, seed, only);
            std::env::set_var("L4V_REPLAY", "1");
            std::process::exit(l4v::dispatch(&prop, &tier, seed, only));
        }
        "child" => std::process::exit(l4v::child(&args[2..])),
        "miri" => std::process::exit(l4v::miri_main(&args[2..])),
        _ => usage(),
    }
}

#[allow(dead_code)]
fn _unused(_: Report) {}
