//! S — record-stream model: self-describing frames, client-boundary event
//! log, and the stream oracle (whole frames, no duplicate, order, only-oldest-lost).

use log::Record;
use log4rs::encode::{self, Encode};
use std::collections::{BTreeMap, HashMap, HashSet};
use std::sync::atomic::{AtomicU64, Ordering};

/// Deterministic payload of `len` bytes for (tid, seq); never contains '<', '>' or '\n'.
pub fn payload(tid: u32, seq: u32, len: usize) -> Vec<u8> {
    const ALPHA: [&str; 12] = ["a", "b", "c", "d", "0", "1", "_", "é", "ß", "日", "𝄞", "-"];
    if tid == LITERAL_TID {
        // the frames of this writer are compile-time literals (see `LITERAL_FRAMES`)
        return vec![b'L'; len];
    }
    let mut out = Vec::with_capacity(len);
    let mut x = (tid as u64) << 32 | seq as u64;
    while out.len() < len {
        let r = crate::rng::splitmix(&mut x);
        let s = ALPHA[(r % 12) as usize].as_bytes();
        if out.len() + s.len() <= len {
            out.extend_from_slice(s);
        } else {
            out.push(b'x');
        }
    }
    out
}

/// Writer whose records are passed to the appender as literal messages (`args().as_str()` is `Some`, what
/// `info!("text")` produces): (seq, payload length, the message without the final newline).
pub const LITERAL_TID: u32 = 7;
pub const LITERAL_FRAMES: [(u32, usize, &str); 4] = [
    (0, 0, "<t7:s0:l0:>"),
    (1, 5, "<t7:s1:l5:LLLLL>"),
    (2, 40, "<t7:s2:l40:LLLLLLLLLLLLLLLLLLLLLLLLLLLLLLLLLLLLLLLL>"),
    (3, 100, "<t7:s3:l100:LLLLLLLLLLLLLLLLLLLLLLLLLLLLLLLLLLLLLLLLLLLLLLLLLLLLLLLLLLLLLLLLLLLLLLLLLLLLLLLLLLLLLLLLLLLLLLLLLLLL>"),
];

/// How a record ends, chosen by the writer id: most encoders end a record with a newline, but
/// nothing obliges them to ("|{l}:{m}", "{m}{n}    at {t}").
pub fn terminator(tid: u32) -> &'static [u8] {
    match tid % 900 {
        0..=299 => b">\n",
        300..=599 => b">;",   // no newline at all
        _ => b">\n@",        // a newline followed by more text of the same record
    }
}

/// The complete encoded record, terminator included.
pub fn frame(tid: u32, seq: u32, len: usize) -> Vec<u8> {
    let mut v = format!("<t{}:s{}:l{}:", tid, seq, len).into_bytes();
    v.extend(payload(tid, seq, len));
    v.extend_from_slice(terminator(tid));
    v
}

pub fn frame_len(tid: u32, seq: u32, len: usize) -> usize {
    format!("<t{}:s{}:l{}:", tid, seq, len).len() + len + terminator(tid).len()
}

#[derive(Clone, Copy, Debug, PartialEq, Eq, Hash, PartialOrd, Ord)]
pub struct FrameId {
    pub tid: u32,
    pub seq: u32,
}

#[derive(Clone, Debug)]
pub struct Parsed {
    pub id: FrameId,
    pub offset: usize,
    pub total_len: usize,
}

fn num(b: &[u8], i: &mut usize) -> Option<u64> {
    let st = *i;
    let mut v: u64 = 0;
    while *i < b.len() && b[*i].is_ascii_digit() {
        v = v.checked_mul(10)?.checked_add((b[*i] - b'0') as u64)?;
        *i += 1;
    }
    if *i == st || *i - st > 12 {
        None
    } else {
        Some(v)
    }
}

fn expect(b: &[u8], i: &mut usize, lit: &[u8]) -> bool {
    if b[*i..].starts_with(lit) {
        *i += lit.len();
        true
    } else {
        false
    }
}

/// Parses a byte stream as a concatenation of whole frames.
pub fn parse_stream(b: &[u8]) -> Result<Vec<Parsed>, String> {
    let mut out = vec![];
    let mut i = 0;
    while i < b.len() {
        let st = i;
        let bad = |what: &str, at: usize| -> String {
            let lo = at.saturating_sub(40);
            let hi = (at + 40).min(b.len());
            format!(
                "{} at byte {} (frame starting at {}): …{}…",
                what,
                at,
                st,
                String::from_utf8_lossy(&b[lo..hi]).replace('\n', "\\n")
            )
        };
        if !expect(b, &mut i, b"<t") {
            return Err(bad("expected the start of a frame", i));
        }
        let tid = num(b, &mut i).ok_or_else(|| bad("bad thread id", i))?;
        if !expect(b, &mut i, b":s") {
            return Err(bad("bad frame header", i));
        }
        let seq = num(b, &mut i).ok_or_else(|| bad("bad sequence number", i))?;
        if !expect(b, &mut i, b":l") {
            return Err(bad("bad frame header", i));
        }
        let len = num(b, &mut i).ok_or_else(|| bad("bad length", i))? as usize;
        if !expect(b, &mut i, b":") {
            return Err(bad("bad frame header", i));
        }
        let term = terminator(tid as u32);
        if i + len + term.len() > b.len() {
            return Err(bad("frame is truncated (stream ends inside it)", b.len()));
        }
        let want = payload(tid as u32, seq as u32, len);
        if b[i..i + len] != want[..] {
            let k = (0..len).find(|k| b[i + k] != want[*k]).unwrap();
            return Err(bad("payload differs from what was written (split / interleaved / corrupted record)", i + k));
        }
        i += len;
        if !expect(b, &mut i, term) {
            return Err(bad("frame terminator missing", i));
        }
        out.push(Parsed {
            id: FrameId { tid: tid as u32, seq: seq as u32 },
            offset: st,
            total_len: i - st,
        });
    }
    Ok(out)
}

// ------------------------------------------------------------- event log

static CLOCK: AtomicU64 = AtomicU64::new(1);

pub fn stamp() -> u64 {
    CLOCK.fetch_add(1, Ordering::SeqCst)
}

#[derive(Clone, Debug)]
pub struct Ack {
    pub id: FrameId,
    pub inv: u64,
    pub ret: u64,
    pub ok: bool,
    /// number of encoded bytes (0 for an empty record)
    pub bytes: usize,
}

#[derive(Default, Debug, Clone)]
pub struct StreamStats {
    pub frames: usize,
    pub missing_acked: usize,
    pub adjacent_cross_thread_pairs: usize,
    pub order_signature: u64,
}

pub struct StreamOpts {
    /// acknowledged frames may be missing, but only the oldest ones
    pub allow_oldest_lost: bool,
}

/// The S oracle over a reconstructed stream and the client-side event log.
pub fn check_stream(stream: &[Parsed], acks: &[Ack], opts: &StreamOpts) -> Result<StreamStats, (String, String)> {
    let by_id: HashMap<FrameId, &Ack> = acks.iter().map(|a| (a.id, a)).collect();
    let mut seen: HashSet<FrameId> = HashSet::new();
    let mut last_seq: BTreeMap<u32, u32> = BTreeMap::new();
    let mut max_inv_before: u64 = 0;
    let mut max_inv_holder: Option<FrameId> = None;
    let mut stats = StreamStats::default();
    let mut prev_tid: Option<u32> = None;
    let mut sig: u64 = 0xcbf29ce484222325;
    for p in stream {
        let Some(a) = by_id.get(&p.id) else {
            return Err(("S:unknown-frame".into(), format!("frame {:?} at offset {} was never written by this history", p.id, p.offset)));
        };
        if a.bytes == 0 {
            return Err(("S:unknown-frame".into(), format!("frame {:?} belongs to an empty record", p.id)));
        }
        if !seen.insert(p.id) {
            return Err(("S:duplicate-frame".into(), format!("frame {:?} occurs twice (second time at offset {})", p.id, p.offset)));
        }
        if let Some(prev) = last_seq.get(&p.id.tid) {
            if *prev >= p.id.seq {
                return Err(("S:per-thread-order".into(), format!("thread {}: seq {} appears after seq {}", p.id.tid, p.id.seq, prev)));
            }
        }
        last_seq.insert(p.id.tid, p.id.seq);
        // real-time order: nothing that was invoked after this append returned may precede it
        if max_inv_before > a.ret {
            return Err(("S:real-time-order".into(), format!(
                "frame {:?} (returned at {}) appears after frame {:?} whose append was only invoked at {}",
                p.id, a.ret, max_inv_holder, max_inv_before)));
        }
        if a.inv > max_inv_before {
            max_inv_before = a.inv;
            max_inv_holder = Some(p.id);
        }
        if let Some(t) = prev_tid {
            if t != p.id.tid {
                stats.adjacent_cross_thread_pairs += 1;
            }
        }
        prev_tid = Some(p.id.tid);
        sig = (sig ^ p.id.tid as u64).wrapping_mul(0x100000001b3);
        stats.frames += 1;
    }
    stats.order_signature = sig;
    // acknowledged frames that are absent
    let missing: Vec<&Ack> = acks.iter().filter(|a| a.ok && a.bytes > 0 && !seen.contains(&a.id)).collect();
    stats.missing_acked = missing.len();
    if !missing.is_empty() {
        if !opts.allow_oldest_lost {
            let m = missing[0];
            return Err(("S:acknowledged-record-lost".into(), format!(
                "{} acknowledged record(s) are in no file, e.g. {:?} (append returned Ok at {})", missing.len(), m.id, m.ret)));
        }
        // only the oldest data may be gone: per thread a prefix ...
        for m in &missing {
            if let Some(first_present) = stream.iter().find(|p| p.id.tid == m.id.tid) {
                if first_present.id.seq < m.id.seq {
                    return Err(("S:hole-in-the-middle".into(), format!(
                        "acknowledged {:?} is missing although the older {:?} of the same thread is still present", m.id, first_present.id)));
                }
            }
        }
        // ... and globally nothing present may have completed before a missing one started
        let max_inv_missing = missing.iter().map(|m| (m.inv, m.id)).max().unwrap();
        if let Some(p) = stream.iter().map(|p| (by_id[&p.id].ret, p.id)).min() {
            if p.0 < max_inv_missing.0 {
                return Err(("S:hole-in-the-middle".into(), format!(
                    "acknowledged {:?} (invoked at {}) is missing although {:?}, which had already returned at {}, is still present",
                    max_inv_missing.1, max_inv_missing.0, p.1, p.0)));
            }
        }
    }
    Ok(stats)
}

// ------------------------------------------------------- harness encoders

/// Writes the record's message (the frame) in `pieces` separate `write_all` calls.
#[derive(Debug)]
pub struct ChunkEnc {
    pub pieces: usize,
}

impl Encode for ChunkEnc {
    fn encode(&self, w: &mut dyn encode::Write, record: &Record) -> anyhow::Result<()> {
        let s = record.args().to_string();
        let b = s.as_bytes();
        if b.is_empty() {
            return Ok(());
        }
        if self.pieces == 0 {
            // uneven: a short prefix, then everything else in one chunk (like "{l} {m}{n}" with a long message)
            let cut = b.len().min(5);
            w.write_all(&b[..cut])?;
            if cut < b.len() {
                w.write_all(&b[cut..])?;
            }
            return Ok(());
        }
        let k = self.pieces.max(1).min(b.len());
        let step = (b.len() + k - 1) / k;
        for c in b.chunks(step) {
            w.write_all(c)?;
        }
        Ok(())
    }
}

/// Message text for a frame; with `newline` the encoder is expected to add nothing.
pub fn message_for(tid: u32, seq: u32, len: usize, with_newline: bool) -> String {
    let mut f = frame(tid, seq, len);
    if !with_newline {
        // only the newline-terminated style can leave its newline to the encoder ("{m}{n}")
        assert!(terminator(tid) == b">\n", "style of writer {} needs an encoder that writes the message verbatim", tid);
        f.pop();
    }
    String::from_utf8(f).expect("frames are UTF-8")
}

// --------------------------------------------------------- decompression

#[cfg(feature = "full")]
pub fn gunzip_strict(b: &[u8]) -> Result<Vec<u8>, String> {
    use std::io::Read;
    // MultiGzDecoder rejects trailing garbage after the last member
    let mut d = flate2::read::MultiGzDecoder::new(b);
    let mut out = vec![];
    d.read_to_end(&mut out).map_err(|e| format!("gzip: {}", e))?;
    Ok(out)
}

#[cfg(feature = "full")]
pub fn unzstd_strict(b: &[u8]) -> Result<Vec<u8>, String> {
    zstd::decode_all(b).map_err(|e| format!("zstd: {}", e))
}

#[cfg(not(feature = "full"))]
pub fn gunzip_strict(_: &[u8]) -> Result<Vec<u8>, String> {
    Err("gzip support not compiled into this harness build".into())
}

#[cfg(not(feature = "full"))]
pub fn unzstd_strict(_: &[u8]) -> Result<Vec<u8>, String> {
    Err("zstd support not compiled into this harness build".into())
}

/// Decodes an archive according to its file name.
pub fn decode_archive(name: &str, bytes: &[u8]) -> Result<Vec<u8>, String> {
    if name.ends_with(".gz") {
        gunzip_strict(bytes)
    } else if name.ends_with(".zst") {
        unzstd_strict(bytes)
    } else {
        Ok(bytes.to_vec())
    }
}
