//! Running the harness binary as a child process with a watchdog.

use std::io::Read;
use std::process::{Command, Stdio};
use std::time::{Duration, Instant};

pub struct ChildOut {
    pub status: Option<i32>,
    pub stdout: Vec<u8>,
    pub stderr: Vec<u8>,
    pub timed_out: bool,
}

pub fn self_exe() -> std::path::PathBuf {
    std::env::current_exe().expect("current_exe")
}

/// Runs `l4v child <args>` with the given extra environment (`None` value =
/// remove the variable). Kills it after `timeout`.
pub fn run_child(args: &[String], env: &[(&str, Option<&str>)], timeout: Duration) -> std::io::Result<ChildOut> {
    let mut cmd = Command::new(self_exe());
    cmd.arg("child").args(args);
    for (k, v) in env {
        match v {
            Some(v) => {
                cmd.env(k, v);
            }
            None => {
                cmd.env_remove(k);
            }
        }
    }
    cmd.stdin(Stdio::null()).stdout(Stdio::piped()).stderr(Stdio::piped());
    let mut child = cmd.spawn()?;
    let mut so = child.stdout.take().unwrap();
    let mut se = child.stderr.take().unwrap();
    let t_out = std::thread::spawn(move || {
        let mut v = vec![];
        let _ = so.read_to_end(&mut v);
        v
    });
    let t_err = std::thread::spawn(move || {
        let mut v = vec![];
        let _ = se.read_to_end(&mut v);
        v
    });
    let start = Instant::now();
    let mut timed_out = false;
    let status = loop {
        match child.try_wait()? {
            Some(st) => break st.code(),
            None => {
                if start.elapsed() > timeout {
                    let _ = child.kill();
                    let _ = child.wait();
                    timed_out = true;
                    break None;
                }
                std::thread::sleep(Duration::from_millis(5));
            }
        }
    };
    Ok(ChildOut {
        status,
        stdout: t_out.join().unwrap_or_default(),
        stderr: t_err.join().unwrap_or_default(),
        timed_out,
    })
}
