//! C02 — enabled(), delivery and the global max level agree.

use crate::childproc::run_child;
use crate::fsutil::Scratch;
use crate::par::run_cases;
use crate::report::Report;
use crate::rng::Rng;
use crate::routing::*;
use crate::trap;
use log::{LevelFilter, Metadata};
use serde_json::{json, Value};
use std::time::Duration;

pub fn run(rep: &mut Report) {
    rep.rule = "in-process: random configurations, Log::enabled for every probe (target, level) compared with the routing \
        model's threshold, Logger::max_log_level with the model's maximum; child processes (the log facade is process-global): \
        one history each = an init variant (init_config, init_config_with_err_handler, init_raw_config, init_file) followed by \
        5-30 set_config swaps whose maximum goes up and down, with log::max_level(), log_enabled! and deliveries of the real \
        log! macros compared with the model after every step; non-trivial = a logger other than the root is the most verbose, \
        or the probe reaches a non-root logger; distinct = (config, target, level)".to_owned();
    rep.assume("facade behaviour is observed in dedicated child processes; STATIC_MAX_LEVEL is the log crate's default (no compile-time filter)");

    let n = if rep.tier == "thorough" { 100_000 } else { 10_000 };
    run_cases(rep, "enabled", n, |rep, rng, idx| {
        let spec = gen_spec(rng, 8, 5);
        let sink = new_sink();
        let cfg = match build_config(&spec, &sink, "", Some(rng)) {
            Ok(c) => c,
            Err(e) => {
                rep.violation("C02:valid-config-rejected", json!({"spec": spec.to_json(), "error": e}));
                return;
            }
        };
        // the root level may still be adjusted on the built Config (Config::root_mut)
        let mut cfg = cfg;
        let mut spec = spec;
        if rng.chance(1, 3) {
            let nl = *rng.pick(&FILTERS);
            cfg.root_mut().set_level(nl);
            spec.root_level = nl;
            rep.count("configs_with_root_level_changed_after_build", 1);
        }
        let logger = log4rs::Logger::new(cfg);
        let want_max = spec.max_level();
        let got_max = logger.max_log_level();
        let deep_max = spec.loggers.iter().any(|l| l.level > spec.root_level);
        rep.case(&format!("max|{}", spec.to_json()), deep_max);
        rep.count("max_level_checks", 1);
        if deep_max {
            rep.count("max_level_checks_where_a_descendant_is_most_verbose", 1);
        }
        if got_max != want_max {
            rep.violation("C02:max_log_level", json!({"spec": spec.to_json(),
                "expected": want_max.to_string(), "got": got_max.to_string()}));
        }
        let spec_s = spec.to_json().to_string();
        for t in probe_targets(&spec, rng) {
            for lvl in LEVELS {
                let want = spec.enabled(&t, lvl);
                let got = match trap::catch(|| {
                    log::Log::enabled(&logger, &Metadata::builder().target(&t).level(lvl).build())
                }) {
                    Ok(g) => g,
                    Err(p) => {
                        rep.violation(&format!("C02:panic:enabled:{}", p.site()),
                            json!({"spec": spec.to_json(), "target": t, "panic": p.message}));
                        continue;
                    }
                };
                rep.case(&format!("{}|{}|{}", spec_s, t, lvl), spec.effective(&t).is_some());
                rep.count("enabled_probes", 1);
                if got != want {
                    rep.violation("C02:enabled-disagrees", json!({"spec": spec.to_json(), "target": t,
                        "level": lvl.to_string(), "expected": want, "got": got}));
                }
                // coherence with delivery: a record is delivered somewhere only if enabled
                let delivered = deliver(&logger, &sink, &t, lvl, 1);
                if !delivered.is_empty() && !got {
                    rep.violation("C02:delivered-but-not-enabled", json!({"spec": spec.to_json(), "target": t,
                        "level": lvl.to_string()}));
                }
                if delivered.is_empty() && got && !spec.expected(&t, lvl).is_empty() {
                    rep.violation("C02:enabled-but-not-delivered", json!({"spec": spec.to_json(), "target": t,
                        "level": lvl.to_string()}));
                }
            }
        }
        if idx == 0 {
            rep.sample(json!({"spec": spec.to_json(), "expected_max_level": want_max.to_string()}));
        }
    });

    // child histories
    let per_variant = if rep.tier == "thorough" { 150 } else { 12 };
    let total = 4 * per_variant;
    run_cases(rep, "history", total, |rep, _rng, idx| {
        let variant = idx % 4;
        let seed = crate::rng::subseed(rep.seed, "c02child", idx);
        let args = vec!["c02".to_owned(), seed.to_string(), variant.to_string()];
        match run_child(&args, &[], Duration::from_secs(120)) {
            Err(e) => rep.inconclusive(&format!("cannot spawn child: {}", e)),
            Ok(out) if out.timed_out => rep.inconclusive("C02 child history timed out (watchdog)"),
            Ok(out) => {
                let text = String::from_utf8_lossy(&out.stdout);
                let line = text.lines().rev().find(|l| l.starts_with("RESULT "));
                let Some(line) = line else {
                    // a child that died without a result: a panic/abort inside the facade path is a finding,
                    // anything else is inconclusive; keep stderr for triage
                    let err = String::from_utf8_lossy(&out.stderr);
                    if err.contains("panicked at") && err.contains("/repo/") {
                        rep.violation("C02:child-panicked", json!({"variant": variant, "child_seed": seed,
                            "stderr": err.chars().take(2000).collect::<String>()}));
                    } else {
                        rep.inconclusive(&format!("C02 child produced no result (status {:?}): {}", out.status,
                            err.chars().take(300).collect::<String>()));
                    }
                    return;
                };
                let v: Value = match serde_json::from_str(&line[7..]) {
                    Ok(v) => v,
                    Err(_) => {
                        rep.inconclusive("C02 child result not parseable");
                        return;
                    }
                };
                rep.case(&format!("history|{}|{}", variant, seed), true);
                for (k, c) in v["counters"].as_object().cloned().unwrap_or_default() {
                    rep.count(&k, c.as_i64().unwrap_or(0));
                }
                rep.evaluations += v["probes"].as_u64().unwrap_or(0);
                for viol in v["violations"].as_array().cloned().unwrap_or_default() {
                    rep.violation(viol["signature"].as_str().unwrap_or("C02:child"),
                        json!({"variant": variant, "child_seed": seed, "detail": viol["detail"]}));
                }
                if idx < 4 {
                    rep.sample(json!({"child_history": {"variant": v["variant_name"], "steps": v["steps"],
                        "max_levels_seen": v["max_levels"]}}));
                }
            }
        }
    });
    rep.require(rep.counter("facade_max_level_checks") >= 20, "fewer than 20 facade max-level observations");
    rep.require(rep.counter("macro_deliveries_compared") > 1000, "fewer than 1000 macro deliveries compared");
    rep.require(rep.counter("max_went_down") >= 3 && rep.counter("max_went_up") >= 3,
        "reconfiguration histories did not move the maximum both up and down");
}

// ----------------------------------------------------------------- child

const VARIANTS: [&str; 4] = ["init_config", "init_config_with_err_handler", "init_raw_config", "init_file"];

fn file_config_json(spec: &ConfSpec, dir: &std::path::Path) -> Value {
    let mut apps = serde_json::Map::new();
    for a in &spec.appenders {
        apps.insert(a.clone(), json!({"kind": "file", "path": dir.join(format!("{}.log", a)).to_str().unwrap(),
            "append": false, "encoder": {"pattern": "{m}{n}"}}));
    }
    let mut loggers = serde_json::Map::new();
    for l in &spec.loggers {
        loggers.insert(l.name.clone(), json!({"level": l.level.to_string().to_lowercase(),
            "additive": l.additive, "appenders": l.appenders}));
    }
    json!({"appenders": apps, "root": {"level": spec.root_level.to_string().to_lowercase(),
        "appenders": spec.root_appenders}, "loggers": loggers})
}

struct ChildState {
    probes: u64,
    counters: std::collections::BTreeMap<String, i64>,
    violations: Vec<Value>,
    /// the target of the last question asked before the latest reconfiguration(s)
    last_target: Option<String>,
}

impl ChildState {
    fn count(&mut self, k: &str) {
        *self.counters.entry(k.to_owned()).or_insert(0) += 1;
    }
    fn viol(&mut self, sig: &str, detail: Value) {
        if self.violations.len() < 20 {
            self.violations.push(json!({"signature": sig, "detail": detail}));
        }
    }
}

/// Probes the *global* facade: max level, log_enabled!, macro deliveries.
fn probe_global(
    st: &mut ChildState,
    spec: &ConfSpec,
    rng: &mut Rng,
    step: usize,
    observe: &mut dyn FnMut() -> Vec<String>,
) {
    let want_max = spec.max_level();
    let got_max = log::max_level();
    st.count("facade_max_level_checks");
    if got_max != want_max {
        st.viol("C02:facade-max-level", json!({"step": step, "spec": spec.to_json(),
            "expected": want_max.to_string(), "got": got_max.to_string()}));
    }
    // the first question after a reconfiguration is the last one asked before it (an answer remembered
    // across reconfigurations would be stale exactly here)
    if let Some(t) = st.last_target.clone() {
        for lvl in LEVELS {
            let en = log::log_enabled!(target: &t, lvl);
            st.count("questions_repeated_right_after_a_reconfiguration");
            if en != spec.enabled(&t, lvl) {
                st.viol("C02:log_enabled-macro:same-question-after-reconfiguration", json!({"step": step, "spec": spec.to_json(), "target": t,
                    "level": lvl.to_string(), "expected": spec.enabled(&t, lvl), "got": en}));
            }
        }
    }
    let mut targets = probe_targets(spec, rng);
    rng.shuffle(&mut targets);
    targets.truncate(25);
    st.last_target = targets.last().cloned();
    for t in targets {
        for lvl in LEVELS {
            st.probes += 1;
            let en = log::log_enabled!(target: &t, lvl);
            if en != spec.enabled(&t, lvl) {
                st.viol("C02:log_enabled-macro", json!({"step": step, "spec": spec.to_json(), "target": t,
                    "level": lvl.to_string(), "expected": spec.enabled(&t, lvl), "got": en}));
            }
            let _ = observe(); // drain
            log::log!(target: &t, lvl, "{}", st.probes);
            let got = observe();
            let want = spec.expected(&t, lvl);
            *st.counters.entry("macro_deliveries_compared".into()).or_insert(0) += want.len().max(1) as i64;
            if got != want {
                st.viol("C02:macro-delivery", json!({"step": step, "spec": spec.to_json(), "target": t,
                    "level": lvl.to_string(), "expected": want, "got": got,
                    "facade_max": log::max_level().to_string()}));
            }
        }
    }
}

pub fn child_main(args: &[String]) -> i32 {
    let seed: u64 = args[0].parse().unwrap();
    let variant: usize = args[1].parse().unwrap();
    let mut rng = Rng::new(seed);
    let mut st = ChildState { probes: 0, counters: Default::default(), violations: vec![], last_target: None };
    let mut max_levels: Vec<String> = vec![];
    let steps;

    // a history of specs whose maximum level moves: alternate "quiet" and "verbose" shapes
    let n_steps = 5 + rng.usize_below(26);
    let mut specs: Vec<ConfSpec> = vec![];
    for i in 0..=n_steps {
        let mut s = gen_spec(&mut rng, 6, 4);
        match (i + rng.usize_below(2)) % 3 {
            0 => {
                // quiet: nothing above Warn
                s.root_level = s.root_level.min(LevelFilter::Warn);
                for l in &mut s.loggers {
                    l.level = l.level.min(LevelFilter::Warn);
                }
            }
            1 => {
                // the most verbose logger is a deep, possibly non-additive descendant
                s.root_level = s.root_level.min(LevelFilter::Error);
                for l in &mut s.loggers {
                    l.level = l.level.min(LevelFilter::Info);
                }
                let name = format!("{}::deep::er", gen_name(&mut rng, 3));
                if !s.loggers.iter().any(|l| l.name == name) {
                    let app = s.appenders[0].clone();
                    s.loggers.push(LoggerSpec { name, level: LevelFilter::Trace, additive: rng.chance(1, 2), appenders: vec![app] });
                }
            }
            _ => {}
        }
        specs.push(s);
    }

    if variant <= 1 {
        let sink = new_sink();
        let cfg0 = build_config(&specs[0], &sink, "", Some(&mut rng)).expect("valid config");
        let handle = if variant == 0 {
            log4rs::init_config(cfg0).expect("init_config")
        } else {
            log4rs::config::init_config_with_err_handler(cfg0, Box::new(|_| {})).expect("init_config_with_err_handler")
        };
        let mut observe = || {
            let mut v: Vec<String> = sink.lock().unwrap().drain(..).map(|(n, _)| n).collect();
            v.sort();
            v
        };
        let mut prev = specs[0].max_level();
        max_levels.push(prev.to_string());
        probe_global(&mut st, &specs[0], &mut rng, 0, &mut observe);
        for (i, s) in specs.iter().enumerate().skip(1) {
            // now and then the configuration carries an (unattached) appender whose destructor panics: the
            // set_config call that replaces it unwinds
            let mut s_built = s.clone();
            if rng.chance(1, 5) {
                s_built.appenders.push(crate::routing::BOMB.to_owned());
            }
            let mut cfg = build_config(&s_built, &sink, "", Some(&mut rng)).expect("valid config");
            // (the specs of this history were already adjusted: see below)
            cfg.root_mut().set_level(s.root_level);
            // somebody else may have moved the facade's maximum in the meantime (log::set_max_level is a public
            // function): every reconfiguration installs the configuration's own maximum
            if rng.chance(1, 4) {
                let other = *rng.pick(&FILTERS);
                log::set_max_level(other);
                st.count("facade_maximum_moved_by_somebody_else_before_a_reconfiguration");
            }
            let r = std::panic::catch_unwind(std::panic::AssertUnwindSafe(|| handle.set_config(cfg)));
            if r.is_err() {
                st.count("set_config_calls_that_unwound_from_an_appender_destructor");
            }
            let m = s.max_level();
            if m > prev {
                st.count("max_went_up");
            }
            if m < prev {
                st.count("max_went_down");
            }
            prev = m;
            max_levels.push(m.to_string());
            st.count("set_config_calls");
            // a third of the reconfigurations are followed by the next one at once, nothing asked in between
            if i + 1 < specs.len() && rng.chance(1, 3) {
                st.count("reconfigurations_without_a_question_in_between");
                continue;
            }
            probe_global(&mut st, s, &mut rng, i, &mut observe);
        }
        steps = specs.len();
        // a second initialisation attempt fails (a logger is already installed) and must leave the facade
        // coherent with the configuration that is still active
        let active = specs.last().unwrap();
        for (k, quiet_level) in [LevelFilter::Off, LevelFilter::Trace].iter().enumerate() {
            let other = log4rs::config::Config::builder()
                .build(log4rs::config::Root::builder().build(*quiet_level))
                .expect("valid config");
            let r = if k == 0 { log4rs::init_config(other).map(|_| ()) } else {
                log4rs::config::init_config_with_err_handler(other, Box::new(|_| {})).map(|_| ())
            };
            st.count("failed_second_initialisations");
            if r.is_ok() {
                st.viol("C02:second-init-succeeded", json!({}));
            }
            let got = log::max_level();
            if got != active.max_level() {
                st.viol("C02:facade-max-level:clobbered-by-a-failed-second-init", json!({"active_spec": active.to_json(),
                    "second_config_root_level": quiet_level.to_string(), "expected": active.max_level().to_string(), "got": got.to_string()}));
            }
            probe_global(&mut st, active, &mut rng, 1000 + k, &mut observe);
        }
    } else {
        // file appenders; no handle is returned by these entry points
        let scratch = Scratch::new("c02");
        let spec = &specs[1.min(specs.len() - 1)];
        let doc = file_config_json(spec, &scratch.path);
        if variant == 2 {
            let raw: log4rs::config::RawConfig = serde_json::from_value(doc).expect("raw config");
            log4rs::init_raw_config(raw).expect("init_raw_config");
        } else {
            let p = scratch.join("cfg.json");
            std::fs::write(&p, serde_json::to_string_pretty(&doc).unwrap()).unwrap();
            log4rs::init_file(&p, Default::default()).expect("init_file");
        }
        let dir = scratch.path.clone();
        let names = spec.appenders.clone();
        let mut offsets: std::collections::BTreeMap<String, usize> = Default::default();
        let mut observe = || {
            let mut v = vec![];
            for a in &names {
                let bytes = std::fs::read(dir.join(format!("{}.log", a))).unwrap_or_default();
                let off = offsets.entry(a.clone()).or_insert(0);
                let new = &bytes[(*off).min(bytes.len())..];
                for _ in new.iter().filter(|b| **b == b'\n') {
                    v.push(a.clone());
                }
                *off = bytes.len();
            }
            v.sort();
            v
        };
        max_levels.push(spec.max_level().to_string());
        probe_global(&mut st, spec, &mut rng, 0, &mut observe);
        steps = 1;
    }
    println!(
        "RESULT {}",
        json!({"variant_name": VARIANTS[variant], "steps": steps, "probes": st.probes,
            "counters": st.counters, "violations": st.violations, "max_levels": max_levels})
    );
    0
}
