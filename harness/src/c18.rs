//! C18 — console output obeys tty_only and colour policy; ANSI sequences are well-formed.

use crate::par::run_cases;
use crate::pattern_model::{self as pm, Ev, GenOpts, StyleEv};
use crate::report::Report;
use crate::rng::Rng;
use crate::trap;
use chrono::{Local, Utc};
use log::{Level, Record};
use log4rs::append::console::{ConsoleAppender, Target};
use log4rs::append::Append;
use log4rs::encode::pattern::PatternEncoder;
use log4rs::encode::writer::ansi::AnsiWriter;
use log4rs::encode::{Color, Encode, Style, Write as EncWrite};
use serde_json::json;
use std::fs::File;
use std::io::Read;
use std::os::fd::{AsRawFd, FromRawFd, OwnedFd};
use std::process::{Command, Stdio};
use std::time::{Duration, Instant};

const COLORS: [Option<Color>; 9] = [
    None,
    Some(Color::Black),
    Some(Color::Red),
    Some(Color::Green),
    Some(Color::Yellow),
    Some(Color::Blue),
    Some(Color::Magenta),
    Some(Color::Cyan),
    Some(Color::White),
];

fn color_digit(c: Color) -> u8 {
    match c {
        Color::Black => 0,
        Color::Red => 1,
        Color::Green => 2,
        Color::Yellow => 3,
        Color::Blue => 4,
        Color::Magenta => 5,
        Color::Cyan => 6,
        Color::White => 7,
    }
}

/// The one well-formed SGR sequence encoding exactly these attributes.
pub fn sgr(text: Option<u8>, background: Option<u8>, intense: Option<bool>) -> Vec<u8> {
    let mut s = String::from("\x1b[0");
    if let Some(c) = text {
        s.push_str(&format!(";3{}", c));
    }
    if let Some(c) = background {
        s.push_str(&format!(";4{}", c));
    }
    match intense {
        Some(true) => s.push_str(";1"),
        Some(false) => s.push_str(";22"),
        None => {}
    }
    s.push('m');
    s.into_bytes()
}

fn sgr_of(e: &StyleEv) -> Vec<u8> {
    sgr(e.text, e.background, e.intense)
}

fn all_styles(rep: &mut Report) {
    for (ti, t) in COLORS.iter().enumerate() {
        for (bi, b) in COLORS.iter().enumerate() {
            for (ii, i) in [None, Some(true), Some(false)].iter().enumerate() {
                let mut st = Style::new();
                if let Some(c) = t {
                    st.text(*c);
                }
                if let Some(c) = b {
                    st.background(*c);
                }
                if let Some(x) = i {
                    st.intense(*x);
                }
                rep.case_enumerated(ti + bi + ii > 0);
                rep.count("styles_checked", 1);
                let want = sgr(t.map(color_digit), b.map(color_digit), *i);
                let d = json!({"text": format!("{:?}", t), "background": format!("{:?}", b), "intense": i});
                let r = trap::catch(|| {
                    let mut w = AnsiWriter(Vec::<u8>::new());
                    w.set_style(&st).map(|_| w.0)
                });
                match r {
                    Err(p) => rep.violation(&format!("C18:panic:set_style:{}", p.site()), json!({"style": d, "panic": p.message})),
                    Ok(Err(e)) => rep.violation("C18:set_style-error", json!({"style": d, "error": e.to_string()})),
                    Ok(Ok(bytes)) => {
                        if bytes != want {
                            rep.violation("C18:malformed-sgr", json!({"style": d,
                                "expected": String::from_utf8_lossy(&want).replace('\x1b', "ESC"),
                                "got": String::from_utf8_lossy(&bytes).replace('\x1b', "ESC")}));
                        }
                    }
                }
                // the same through a legal `io::Write` that takes 1-4 bytes per call (and, every other time, is
                // interrupted now and then): the sequence must arrive whole
                for interrupts in [false, true] {
                    rep.count("styles_checked_through_a_short_writer", 1);
                    let r = trap::catch(|| {
                        let mut inner = pm::CapW::short(((ti * 9 + bi) * 3 + ii) as u64 * 2 + interrupts as u64);
                        inner.interrupts = interrupts;
                        let mut w = AnsiWriter(inner);
                        w.set_style(&st).map(|_| w.0.bytes)
                    });
                    match r {
                        Err(p) => rep.violation(&format!("C18:panic:set_style:{}", p.site()), json!({"style": d, "panic": p.message, "writer": "short writes"})),
                        Ok(Err(e)) => rep.violation("C18:set_style-error", json!({"style": d, "error": e.to_string(), "writer": "short writes"})),
                        Ok(Ok(bytes)) => {
                            if bytes != want {
                                rep.violation("C18:malformed-sgr:short-writes", json!({"style": d, "writer_is_interrupted": interrupts,
                                    "expected": String::from_utf8_lossy(&want).replace('\x1b', "ESC"),
                                    "got": String::from_utf8_lossy(&bytes).replace('\x1b', "ESC")}));
                            }
                        }
                    }
                }
            }
        }
    }
}

/// Random highlight patterns through the real AnsiWriter: every highlighted group is
/// `SGR(level) text SGR(reset)` around exactly the reference text.
fn ansi_patterns(rep: &mut Report, rng: &mut Rng, idx: u64) {
    let o = GenOpts { max_depth: 3, allow_default_date: false, allow_profile_groups: false, spec_prob: (1, 2), mdc_keys: vec![] };
    let mut hole = 0;
    let mut nodes = pm::gen_nodes(rng, &o, 0, &mut hole, false);
    // make sure there is a highlight, often with a width limit on it
    let inner = pm::gen_nodes(rng, &o, 2, &mut hole, false);
    let spec = if rng.chance(2, 3) { Some(pm::gen_spec(rng)) } else { None };
    nodes.push(pm::Node::Fmt(pm::Kind::Highlight(inner), spec));
    fn strip(ns: &mut Vec<pm::Node>) {
        ns.retain(|n| !matches!(n, pm::Node::Fmt(pm::Kind::Date { .. }, _) | pm::Node::Fmt(pm::Kind::Mdc { .. }, _)));
        for n in ns.iter_mut() {
            if let pm::Node::Fmt(pm::Kind::Group(c) | pm::Kind::Highlight(c), _) = n {
                strip(c);
            }
        }
    }
    strip(&mut nodes);
    let pattern = pm::print(&nodes, rng, false);
    let mut ctx = pm::gen_ctx(rng, &[]);
    ctx.mdc.clear();
    let enc = match trap::catch(|| PatternEncoder::new(&pattern)) {
        Ok(e) => e,
        Err(p) => {
            rep.violation("C18:panic:pattern", json!({"pattern": pattern, "panic": p.message}));
            return;
        }
    };
    let now = Utc::now();
    let expected = pm::render(&nodes, &ctx, &now.with_timezone(&Local), &now);
    let mut want: Vec<u8> = vec![];
    for e in &expected {
        match e {
            Ev::Ch(c) => {
                let mut b = [0u8; 4];
                want.extend_from_slice(c.encode_utf8(&mut b).as_bytes());
            }
            Ev::Style(s) => want.extend(sgr_of(s)),
            Ev::DateHole { .. } => {}
        }
    }
    let pieces = vec![ctx.message.clone()];
    let r = trap::catch(|| {
        let mut w = AnsiWriter(Vec::<u8>::new());
        pm::with_record(&ctx, &pieces, |rec| enc.encode(&mut w, rec)).map(|_| w.0)
    });
    rep.case(&format!("{}|{:?}|{}", pattern, ctx.level, ctx.message), true);
    rep.count("highlight_patterns_through_ansi_writer", 1);
    let show = |b: &[u8]| String::from_utf8_lossy(b).replace('\x1b', "ESC");
    match r {
        Err(p) => rep.violation(&format!("C18:panic:encode:{}", p.site()), json!({"pattern": pattern, "panic": p.message})),
        Ok(Err(e)) => rep.violation("C18:encode-error", json!({"pattern": pattern, "error": e.to_string()})),
        Ok(Ok(got)) => {
            if got != want {
                let resets = |b: &[u8]| b.windows(4).filter(|w| *w == b"\x1b[0m").count();
                let sets = |b: &[u8]| b.windows(2).filter(|w| *w == b"\x1b[").count();
                let sig = if sets(&got) - resets(&got) != sets(&want) - resets(&want) || resets(&got) != resets(&want) {
                    "C18:highlight-set-reset-mismatch"
                } else {
                    "C18:ansi-output-differs"
                };
                rep.violation(sig, json!({"pattern": pattern, "level": ctx.level.to_string(), "message": ctx.message,
                    "expected": show(&want), "got": show(&got)}));
            }
        }
    }
    // the same record through an AnsiWriter whose inner writer takes 1-4 bytes per call
    let interrupts = idx % 2 == 1;
    let r = trap::catch(|| {
        let mut inner = pm::CapW::short(rng.next_u64());
        inner.interrupts = interrupts;
        let mut w = AnsiWriter(inner);
        pm::with_record(&ctx, &pieces, |rec| enc.encode(&mut w, rec)).map(|_| w.0.bytes)
    });
    rep.count("highlight_patterns_through_ansi_writer_with_short_writes", 1);
    match r {
        Err(p) => rep.violation(&format!("C18:panic:encode:{}", p.site()), json!({"pattern": pattern, "panic": p.message, "writer": "short writes"})),
        Ok(Err(e)) => rep.violation("C18:encode-error", json!({"pattern": pattern, "error": e.to_string(), "writer": "short writes"})),
        Ok(Ok(got)) => {
            if got != want {
                rep.violation("C18:ansi-output-differs:short-writes", json!({"pattern": pattern, "level": ctx.level.to_string(),
                    "message": ctx.message, "writer_is_interrupted": interrupts, "expected": show(&want), "got": show(&got)}));
            }
        }
    }
    if idx < 2 {
        rep.sample(json!({"pattern": pattern, "level": ctx.level.to_string(), "expected_bytes": show(&want)}));
    }
}

// ------------------------------------------------------------ pty / pipes

fn open_pty() -> std::io::Result<(File, File)> {
    unsafe {
        let m = libc::posix_openpt(libc::O_RDWR | libc::O_NOCTTY);
        if m < 0 {
            return Err(std::io::Error::last_os_error());
        }
        if libc::grantpt(m) != 0 || libc::unlockpt(m) != 0 {
            let e = std::io::Error::last_os_error();
            libc::close(m);
            return Err(e);
        }
        let mut buf = [0 as libc::c_char; 128];
        if libc::ptsname_r(m, buf.as_mut_ptr(), buf.len()) != 0 {
            let e = std::io::Error::last_os_error();
            libc::close(m);
            return Err(e);
        }
        let s = libc::open(buf.as_ptr(), libc::O_RDWR | libc::O_NOCTTY);
        if s < 0 {
            let e = std::io::Error::last_os_error();
            libc::close(m);
            return Err(e);
        }
        // raw mode: no NL -> CRNL translation, no echo
        let mut t: libc::termios = std::mem::zeroed();
        if libc::tcgetattr(s, &mut t) == 0 {
            libc::cfmakeraw(&mut t);
            libc::tcsetattr(s, libc::TCSANOW, &t);
        }
        Ok((File::from_raw_fd(m), File::from_raw_fd(s)))
    }
}

fn set_nonblocking(f: &File) {
    unsafe {
        let fl = libc::fcntl(f.as_raw_fd(), libc::F_GETFL);
        libc::fcntl(f.as_raw_fd(), libc::F_SETFL, fl | libc::O_NONBLOCK);
    }
}

fn drain(f: &mut File, out: &mut Vec<u8>) {
    let mut buf = [0u8; 4096];
    loop {
        match f.read(&mut buf) {
            Ok(0) => break,
            Ok(n) => out.extend_from_slice(&buf[..n]),
            Err(_) => break, // EAGAIN or EIO (slave closed)
        }
    }
}

macro_rules! LONG_LITERAL {
    () => {
        concat!("first line\n", "xxxxxxxxxxxxxxxxxxxxxxxxxxxxxxxxxxxxxxxxxxxxxxxxxxxxxxxxxxxxxxxxxxxxxxxxxxxxxxxxxxxxxxxxxxxxxxxxxxxxxxxxxxxxxxxxxxxxxxxxxxxxxxxxxxxxxxxxxxxxxxxxxxxxxxxxxxxxxxxxxxxxxxxxxxxxxxxxxxxxxxxxxxxxxxxxxxxxxxxxxxxxxxxxxxxxxxxxxxxxxxxxxxxxxxxxxxxxxxxxxxxxxxxxxxxxxxxxxxxxxxxxxxxxxxxxxxxxxxxxxxxxxxxxxxxxxxxxxxxxxxxxxxxxxxxxxxxxxxxxxxxxxxxxxxxxxxxxxxxxxxxxxxxxxxxxxxxxxxxxxxxxxxxxxxxxxxxxxxxxxxxxxxxxxxxxxxxxxxxxxxxxxxxxxxxxxxxxxxxxxxxxxxxxxxxxxxxxxxxxxxxxxxxxxxxxxxxxxxxxxxxxxxxxxxxxxxxxxxxxxxxxxxxxxxxxxxxxxxxxxxxxxxxxxxxxxxxxxxxxxxxxxxxxxxxxxxxxxxxxxxxxxxxxxxxxxxxxxxxxxxxxxxxxxxxxxxxxxxxxxxxxxxxxxxxxxxxxxxxxxxxxxxxxxxxxxxxxxxxxxxxxxxxxxxxxxxxxxxxxxxxxxxxxxxxxxxxxxxxxxxxxxxxxxxxxxxxxxxxxxxxxxxxxxxxxxxxxxxxxxxxxxxxxxxxxxxxxxxxxxxxxxxxxxxxxxxxxxxxxxxxxxxxxxxxxxxxxxxxxxxxxxxxxxxxxxxxxxxxxxxxxxxxxxxxxxxxxxxxxxxxxxxxxxxxxxxxxxxxxxxxxxxxxxxxxxxxxxxxxxxxxxxxxxxxxxxxxxxxxxxxxxxxxxxxxxxxxxxxxxxxxxxxxxxxxxxxxxxxxxxxxxxxxxxxxxxxxxxxxxxxxxxxxxxxxxxxxxxxxxxxxxxxxxxxxxxxxxxxxxxxxxxxxxxxxxxxxxxxxxxxxxxxxxxxxxxxxxxxxxxxxxxxxxxxxxxxxxxxxxxxxxxxxxxxxxxxxxxxxxxxxxxxxxxxxxxxxxxxxxxxxxxxxxxxxxxxxxxxxxxxxxxxxxxxxxxxxxxxx")
    };
}

pub const CHILD_PATTERN: &str = "{h({l})} {m} [{h({(x{l}y)})}]|{h({m}):.3}|{h({l}):>7}{n}";

fn expected_output(colour: bool, abrupt: bool, newline_inside_highlight: bool) -> Vec<u8> {
    let mut out = vec![];
    for lvl in crate::routing::LEVELS {
        if newline_inside_highlight {
            // pattern "{h({m}{n})}": the reset comes after the newline
            let style: Option<Vec<u8>> = match lvl {
                Level::Error => Some(sgr(Some(1), None, Some(true))),
                Level::Warn => Some(sgr(Some(3), None, None)),
                Level::Info => Some(sgr(Some(2), None, None)),
                Level::Trace => Some(sgr(Some(6), None, None)),
                Level::Debug => None,
            };
            if colour {
                if let Some(s) = &style {
                    out.extend_from_slice(s);
                }
            }
            out.extend_from_slice(format!("msg-{}\n", lvl.to_string().to_lowercase()).as_bytes());
            if colour && style.is_some() {
                out.extend_from_slice(b"\x1b[0m");
            }
            continue;
        }
        let style: Option<Vec<u8>> = match lvl {
            Level::Error => Some(sgr(Some(1), None, Some(true))),
            Level::Warn => Some(sgr(Some(3), None, None)),
            Level::Info => Some(sgr(Some(2), None, None)),
            Level::Trace => Some(sgr(Some(6), None, None)),
            Level::Debug => None,
        };
        let l = lvl.to_string();
        let msg = format!("msg-{}", l.to_lowercase());
        let hl = |out: &mut Vec<u8>, pre: &str, text: &str| {
            out.extend_from_slice(pre.as_bytes());
            if colour {
                if let Some(s) = &style {
                    out.extend_from_slice(s);
                }
            }
            out.extend_from_slice(text.as_bytes());
            if colour && style.is_some() {
                out.extend_from_slice(b"\x1b[0m");
            }
        };
        hl(&mut out, "", &l);
        out.extend_from_slice(format!(" {} [", msg).as_bytes());
        hl(&mut out, "", &format!("x{}y", l));
        out.extend_from_slice(b"]|");
        hl(&mut out, "", &msg[..3]);
        out.extend_from_slice(b"|");
        // right-aligned highlight: padding comes before the styled text
        let pad = " ".repeat(7usize.saturating_sub(l.len()));
        hl(&mut out, &pad, &l);
        out.extend_from_slice(if abrupt { b";" } else { b"\n" });
    }
    out
}

pub fn child_main(args: &[String]) -> i32 {
    let target = if args[0] == "stderr" { Target::Stderr } else { Target::Stdout };
    let tty_only = args[1] == "1";
    let tty_only_first = args.get(2).map(|s| s == "1").unwrap_or(false);
    let abrupt = args.get(3).map(|s| s == "1").unwrap_or(false);
    // abrupt: no record ends in a newline and the process ends with _exit: whatever an append left in a
    // user-space buffer never reaches the stream
    // (half of the abrupt runs use a pattern whose newline sits inside the highlight group: the last bytes of a
    // record are then the reset sequence, after the newline)
    let pattern = if abrupt && tty_only_first { "{h({m}{n})}".to_owned() } else if abrupt { CHILD_PATTERN.replace("{n}", ";") } else { CHILD_PATTERN.to_owned() };
    let b = ConsoleAppender::builder().encoder(Box::new(PatternEncoder::new(&pattern)));
    // the builder's setters commute
    let app = if tty_only_first { b.tty_only(tty_only).target(target).build() } else { b.target(target).tty_only(tty_only).build() };
    for lvl in crate::routing::LEVELS {
        let msg = format!("msg-{}", lvl.to_string().to_lowercase());
        if app.append(&Record::builder().level(lvl).target("t").args(format_args!("{}", msg)).build()).is_err() {
            return 3;
        }
    }
    if abrupt {
        unsafe { libc::_exit(0) }
    }
    // a literal message (no format arguments) of two lines whose last line is longer than any line buffer
    if app.append(&Record::builder().level(Level::Debug).target("t").args(format_args!(LONG_LITERAL!())).build()).is_err() {
        return 3;
    }
    0
}

/// Child: the target stream is re-pointed while the process runs (daemonising, dup2) and a new
/// tty_only appender is built each time: terminal -> pipe -> terminal.
pub fn child_seq(args: &[String]) -> i32 {
    let stderr_target = args[0] == "stderr";
    let fd = if stderr_target { 2 } else { 1 };
    let target = if stderr_target { Target::Stderr } else { Target::Stdout };
    let mk = || ConsoleAppender::builder().encoder(Box::new(PatternEncoder::new("{m}{n}"))).target(target).tty_only(true).build();
    let log = |app: &ConsoleAppender, m: &str| {
        let _ = app.append(&Record::builder().level(Level::Info).args(format_args!("{}", m)).build());
    };
    log(&mk(), "first-on-terminal");
    let mut fds = [0 as libc::c_int; 2];
    let piped: Vec<u8>;
    unsafe {
        if libc::pipe(fds.as_mut_ptr()) != 0 {
            return 4;
        }
        let saved = libc::dup(fd);
        libc::dup2(fds[1], fd);
        log(&mk(), "second-on-pipe");
        libc::dup2(saved, fd);
        libc::close(saved);
        libc::close(fds[1]);
        let mut f = File::from_raw_fd(fds[0]);
        let mut v = vec![];
        let _ = f.read_to_end(&mut v);
        piped = v;
    }
    log(&mk(), "third-on-terminal");
    // report on the other stream
    let line = format!("RESULT {}\n", json!({"pipe_bytes": String::from_utf8_lossy(&piped)}));
    use std::io::Write;
    if stderr_target {
        let _ = std::io::stdout().write_all(line.as_bytes());
        let _ = std::io::stdout().flush();
    } else {
        let _ = std::io::stderr().write_all(line.as_bytes());
    }
    0
}

/// Child: one process with a console appender on stdout AND one on stderr (built in either order); one of the
/// streams is a terminal, the other a pipe. Colour is decided per stream.
pub fn child_both(args: &[String]) -> i32 {
    let stderr_first = args[0] == "1";
    let mk = |t: Target| ConsoleAppender::builder().encoder(Box::new(PatternEncoder::new("{h({l})} {m}{n}"))).target(t).build();
    let (first, second) = if stderr_first { (mk(Target::Stderr), mk(Target::Stdout)) } else { (mk(Target::Stdout), mk(Target::Stderr)) };
    let (out_app, err_app) = if stderr_first { (&second, &first) } else { (&first, &second) };
    for (app, name) in [(out_app, "to-stdout"), (err_app, "to-stderr"), (out_app, "to-stdout-again")] {
        if app.append(&Record::builder().level(Level::Error).target("t").args(format_args!("{}", name)).build()).is_err() {
            return 3;
        }
    }
    0
}

/// Child: a console appender built by the config-file machinery from a hand-written section.
pub fn child_cfg(args: &[String]) -> i32 {
    let doc = args[0].replace("\\n", "\n");
    let value: serde_value::Value = match serde_yaml::from_str(&doc) {
        Ok(v) => v,
        Err(_) => return 4,
    };
    match log4rs::config::Deserializers::default().deserialize::<dyn log4rs::append::Append>("console", value) {
        Ok(app) => {
            let _ = app.append(&Record::builder().level(Level::Info).target("t").args(format_args!("from-the-config-built-appender")).build());
            0
        }
        Err(e) => {
            println!("REJECTED {:#}", e);
            0
        }
    }
}

/// Hand-written console sections: optional keys omitted, or present with an explicit null.
fn cfg_cases(rep: &mut Report) {
    for (k, (doc, on_stderr)) in [
        ("target: stderr\\ntty_only: ~\\nencoder: {pattern: '{m}{n}'}", true),
        ("target: stderr\\ntty_only: null\\nencoder: {pattern: '{m}{n}'}", true),
        ("target: stderr\\nencoder: {pattern: '{m}{n}'}", true),
        ("tty_only: false\\ntarget: ~\\nencoder: {pattern: '{m}{n}'}", false),
        ("tty_only: false\\nencoder: ~", false),
        ("tty_only: true\\ntarget: stderr\\nencoder: {pattern: '{m}{n}'}", true),
    ].iter().enumerate() {
        rep.case_enumerated(true);
        match crate::childproc::run_child(&["c18cfg".to_owned(), (*doc).to_owned()], &[("NO_COLOR", None), ("CLICOLOR", None), ("CLICOLOR_FORCE", None)], Duration::from_secs(60)) {
            Err(e) => rep.inconclusive(&format!("cannot spawn console child: {}", e)),
            Ok(o) if o.timed_out || o.status != Some(0) => rep.inconclusive("config-built console child failed"),
            Ok(o) => {
                rep.count("console_children", 1);
                rep.count("config_built_console_children", 1);
                let (out, err) = (String::from_utf8_lossy(&o.stdout).into_owned(), String::from_utf8_lossy(&o.stderr).into_owned());
                let marker = "from-the-config-built-appender";
                let restricted = k == 5; // tty_only: true on a pipe stays silent
                let ok = if restricted { !out.contains(marker) && !err.contains(marker) && !out.contains("REJECTED") }
                    else if *on_stderr { err.contains(marker) && !out.contains(marker) } else { out.contains(marker) && !err.contains(marker) };
                if !ok {
                    rep.violation("C18:config-built-appender:optional-key-omitted-or-null", json!({"section": doc.replace("\\n", "\n"),
                        "stdout": out, "stderr": err}));
                }
            }
        }
    }
}

fn both_case(rep: &mut Report, idx: u64) {
    let pty_is_stdout = idx % 2 == 0;
    let stderr_first = (idx / 2) % 2 == 1;
    let d = json!({"terminal": if pty_is_stdout { "stdout" } else { "stderr" }, "pipe": if pty_is_stdout { "stderr" } else { "stdout" },
        "built_first": if stderr_first { "the stderr appender" } else { "the stdout appender" }, "colour_variables": "all unset"});
    rep.case_enumerated(true);
    let (mut master, slave) = match open_pty() {
        Ok(x) => x,
        Err(e) => {
            rep.inconclusive(&format!("no pty available: {}", e));
            return;
        }
    };
    let mut cmd = Command::new(crate::childproc::self_exe());
    cmd.args(["child", "c18both", if stderr_first { "1" } else { "0" }]);
    for v in ["NO_COLOR", "CLICOLOR", "CLICOLOR_FORCE"] {
        cmd.env_remove(v);
    }
    cmd.stdin(Stdio::null());
    let fd: OwnedFd = slave.into();
    if pty_is_stdout {
        cmd.stdout(Stdio::from(fd)).stderr(Stdio::piped());
    } else {
        cmd.stderr(Stdio::from(fd)).stdout(Stdio::piped());
    }
    let mut child = match cmd.spawn() {
        Ok(c) => c,
        Err(e) => {
            rep.inconclusive(&format!("cannot spawn: {}", e));
            return;
        }
    };
    drop(cmd);
    set_nonblocking(&master);
    let mut tty_bytes = vec![];
    let start = Instant::now();
    let status = loop {
        drain(&mut master, &mut tty_bytes);
        match child.try_wait() {
            Ok(Some(st)) => break st.code(),
            Ok(None) => {
                if start.elapsed() > Duration::from_secs(120) {
                    let _ = child.kill();
                    let _ = child.wait();
                    rep.inconclusive("console child (two appenders) timed out (watchdog)");
                    return;
                }
                std::thread::sleep(Duration::from_millis(1));
            }
            Err(_) => break None,
        }
    };
    std::thread::sleep(Duration::from_millis(2));
    drain(&mut master, &mut tty_bytes);
    let mut pipe_bytes = vec![];
    if pty_is_stdout {
        if let Some(mut s) = child.stderr.take() {
            let _ = s.read_to_end(&mut pipe_bytes);
        }
    } else if let Some(mut s) = child.stdout.take() {
        let _ = s.read_to_end(&mut pipe_bytes);
    }
    if status != Some(0) {
        rep.inconclusive(&format!("console child (two appenders) exited with {:?}", status));
        return;
    }
    rep.count("console_children", 1);
    rep.count("children_with_two_console_appenders", 1);
    let coloured = |m: &str| -> Vec<u8> {
        let mut v = sgr(Some(1), None, Some(true));
        v.extend_from_slice(b"ERROR\x1b[0m ");
        v.extend_from_slice(m.as_bytes());
        v.push(b'\n');
        v
    };
    let plain = |m: &str| format!("ERROR {}\n", m).into_bytes();
    let (want_tty, want_pipe): (Vec<u8>, Vec<u8>) = if pty_is_stdout {
        ([coloured("to-stdout"), coloured("to-stdout-again")].concat(), plain("to-stderr"))
    } else {
        (coloured("to-stderr"), [plain("to-stdout"), plain("to-stdout-again")].concat())
    };
    let show = |b: &[u8]| String::from_utf8_lossy(b).replace('\x1b', "ESC");
    if tty_bytes != want_tty || pipe_bytes != want_pipe {
        let sig = if pipe_bytes.contains(&0x1b) { "C18:colour-although-disabled:two-appenders-in-one-process" }
            else if !tty_bytes.contains(&0x1b) { "C18:colour-missing:two-appenders-in-one-process" } else { "C18:console-bytes-differ:two-appenders-in-one-process" };
        rep.violation(sig, json!({"case": d, "terminal_received": show(&tty_bytes), "expected_on_terminal": show(&want_tty),
            "pipe_received": show(&pipe_bytes), "expected_on_pipe": show(&want_pipe)}));
    }
}

fn seq_case(rep: &mut Report, stderr_target: bool) {
    let (mut master, slave) = match open_pty() {
        Ok(x) => x,
        Err(e) => {
            rep.inconclusive(&format!("no pty available: {}", e));
            return;
        }
    };
    let mut cmd = Command::new(crate::childproc::self_exe());
    cmd.args(["child", "c18seq", if stderr_target { "stderr" } else { "stdout" }]);
    for v in ["NO_COLOR", "CLICOLOR", "CLICOLOR_FORCE"] {
        cmd.env_remove(v);
    }
    cmd.stdin(Stdio::null());
    let fd: OwnedFd = slave.into();
    if stderr_target {
        cmd.stderr(Stdio::from(fd)).stdout(Stdio::piped());
    } else {
        cmd.stdout(Stdio::from(fd)).stderr(Stdio::piped());
    }
    let mut child = match cmd.spawn() {
        Ok(c) => c,
        Err(e) => {
            rep.inconclusive(&format!("cannot spawn: {}", e));
            return;
        }
    };
    drop(cmd);
    set_nonblocking(&master);
    let mut tty_bytes = vec![];
    let start = Instant::now();
    loop {
        drain(&mut master, &mut tty_bytes);
        match child.try_wait() {
            Ok(Some(_)) => break,
            Ok(None) => {
                if start.elapsed() > Duration::from_secs(180) {
                    let _ = child.kill();
                    let _ = child.wait();
                    rep.inconclusive("sequence child timed out");
                    return;
                }
                std::thread::sleep(Duration::from_millis(1));
            }
            Err(_) => break,
        }
    }
    std::thread::sleep(Duration::from_millis(2));
    drain(&mut master, &mut tty_bytes);
    let mut other = vec![];
    if let Some(mut s) = child.stdout.take() {
        let _ = s.read_to_end(&mut other);
    }
    if let Some(mut s) = child.stderr.take() {
        let _ = s.read_to_end(&mut other);
    }
    let other = String::from_utf8_lossy(&other).into_owned();
    let Some(line) = other.lines().find(|l| l.starts_with("RESULT ")) else {
        rep.inconclusive("sequence child produced no result");
        return;
    };
    let v: serde_json::Value = serde_json::from_str(&line[7..]).unwrap_or_default();
    rep.case_enumerated(true);
    rep.count("retargeting_sequences", 1);
    let tty = String::from_utf8_lossy(&tty_bytes).into_owned();
    let d = json!({"target": if stderr_target { "stderr" } else { "stdout" },
        "history": "tty_only appender built on a terminal, then after dup2(pipe), then after dup2(terminal)",
        "terminal_received": tty, "pipe_received": v["pipe_bytes"]});
    if v["pipe_bytes"] != json!("") {
        rep.violation("C18:tty_only-wrote-to-a-non-terminal:after-retargeting", d);
    } else if tty != "first-on-terminal\nthird-on-terminal\n" {
        rep.violation("C18:silent-although-it-must-write:after-retargeting", d);
    }
}

fn env_name(v: Option<&str>) -> &str {
    v.unwrap_or("unset")
}

fn console_case(rep: &mut Report, idx: u64) {
    let vals: [Option<&str>; 3] = [None, Some("0"), Some("1")];
    let mut k = idx;
    let no_color = vals[(k % 3) as usize];
    k /= 3;
    let clicolor = vals[(k % 3) as usize];
    k /= 3;
    let force = vals[(k % 3) as usize];
    k /= 3;
    let pty = k % 2 == 1;
    k /= 2;
    let stderr_target = k % 2 == 1;
    k /= 2;
    let tty_only = k % 2 == 1;
    k /= 2;
    let tty_only_first = k % 2 == 1;
    k /= 2;
    let abrupt = k % 2 == 1;
    let d = json!({"NO_COLOR": env_name(no_color), "CLICOLOR": env_name(clicolor), "CLICOLOR_FORCE": env_name(force),
        "target_stream_is": if pty { "pty" } else { "pipe" }, "target": if stderr_target { "stderr" } else { "stdout" }, "tty_only": tty_only,
        "builder_calls": if tty_only_first { ".tty_only(..).target(..)" } else { ".target(..).tty_only(..)" },
        "records_end_in_newline_and_process_exits_normally": !abrupt});
    rep.case_enumerated(true);

    let set = |v: Option<&str>| v.map(|s| s != "0").unwrap_or(false);
    let colour = if set(no_color) {
        false
    } else if set(force) {
        true
    } else if clicolor == Some("0") {
        false
    } else {
        pty
    };
    let writes = !tty_only || pty;

    let mut cmd = Command::new(crate::childproc::self_exe());
    cmd.args(["child", "c18", if stderr_target { "stderr" } else { "stdout" }, if tty_only { "1" } else { "0" },
        if tty_only_first { "1" } else { "0" }, if abrupt { "1" } else { "0" }]);
    for (name, v) in [("NO_COLOR", no_color), ("CLICOLOR", clicolor), ("CLICOLOR_FORCE", force)] {
        match v {
            Some(v) => {
                cmd.env(name, v);
            }
            None => {
                cmd.env_remove(name);
            }
        }
    }
    cmd.stdin(Stdio::null());
    let mut master: Option<File> = None;
    if pty {
        match open_pty() {
            Ok((m, s)) => {
                let fd: OwnedFd = s.into();
                if stderr_target {
                    cmd.stderr(Stdio::from(fd)).stdout(Stdio::piped());
                } else {
                    cmd.stdout(Stdio::from(fd)).stderr(Stdio::piped());
                }
                master = Some(m);
            }
            Err(e) => {
                rep.inconclusive(&format!("no pty available: {}", e));
                return;
            }
        }
    } else {
        cmd.stdout(Stdio::piped()).stderr(Stdio::piped());
    }
    let mut child = match cmd.spawn() {
        Ok(c) => c,
        Err(e) => {
            rep.inconclusive(&format!("cannot spawn console child: {}", e));
            return;
        }
    };
    drop(cmd); // closes our copy of the slave
    let mut target_bytes: Vec<u8> = vec![];
    let mut so = child.stdout.take();
    let mut se = child.stderr.take();
    if let Some(m) = &master {
        set_nonblocking(m);
    }
    let start = Instant::now();
    let status = loop {
        if let Some(m) = master.as_mut() {
            drain(m, &mut target_bytes);
        }
        match child.try_wait() {
            Ok(Some(st)) => break st.code(),
            Ok(None) => {
                if start.elapsed() > Duration::from_secs(180) {
                    let _ = child.kill();
                    let _ = child.wait();
                    rep.inconclusive("console child timed out (watchdog)");
                    return;
                }
                std::thread::sleep(Duration::from_millis(1));
            }
            Err(_) => break None,
        }
    };
    if let Some(m) = master.as_mut() {
        std::thread::sleep(Duration::from_millis(2));
        drain(m, &mut target_bytes);
    }
    let mut out_bytes = vec![];
    let mut err_bytes = vec![];
    if let Some(s) = so.as_mut() {
        let _ = s.read_to_end(&mut out_bytes);
    }
    if let Some(s) = se.as_mut() {
        let _ = s.read_to_end(&mut err_bytes);
    }
    let (got_target, got_other) = match (pty, stderr_target) {
        (true, true) => (target_bytes, out_bytes),
        (true, false) => (target_bytes, err_bytes),
        (false, true) => (err_bytes, out_bytes),
        (false, false) => (out_bytes, err_bytes),
    };
    if status != Some(0) {
        let text = String::from_utf8_lossy(&got_other).into_owned() + &String::from_utf8_lossy(&got_target);
        if text.contains("panicked at") {
            rep.violation("C18:console-child-panicked", json!({"case": d, "output": text.chars().take(600).collect::<String>()}));
        } else {
            rep.inconclusive(&format!("console child exited with {:?}", status));
        }
        return;
    }
    rep.count("console_children", 1);
    let show = |b: &[u8]| String::from_utf8_lossy(b).replace('\x1b', "ESC");
    let mut want: Vec<u8> = if writes { expected_output(colour, abrupt, abrupt && tty_only_first) } else { vec![] };
    if writes && !abrupt {
        // the sixth record: DEBUG (no style), literal two-line message
        let m: &str = LONG_LITERAL!();
        want.extend_from_slice(format!("DEBUG {} [xDEBUGy]|{}|  DEBUG\n", m, &m[..3]).as_bytes());
    }
    if !got_other.is_empty() {
        rep.violation("C18:wrote-to-the-other-stream", json!({"case": d, "other_stream": show(&got_other)}));
    }
    if got_target != want {
        let sig = if got_target.is_empty() != want.is_empty() {
            if want.is_empty() { "C18:tty_only-wrote-to-a-non-terminal" } else { "C18:silent-although-it-must-write" }
        } else if got_target.contains(&0x1b) != want.contains(&0x1b) {
            if want.contains(&0x1b) { "C18:colour-missing" } else { "C18:colour-although-disabled" }
        } else {
            "C18:console-bytes-differ"
        };
        rep.violation(sig, json!({"case": d, "expected": show(&want), "got": show(&got_target)}));
    }
    if idx == 100 || idx == 37 {
        rep.sample(json!({"case": d, "expected_writes": writes, "expected_colour": colour}));
    }
}

pub fn run(rep: &mut Report) {
    crate::c09::set_test_zone();
    rep.rule = "(a) all 243 styles (9 text x 9 background x 3 intensity) through AnsiWriter<Vec<u8>>::set_style: exactly the one \
        well-formed SGR sequence, no panic (exhaustive); (b) the full matrix NO_COLOR x CLICOLOR x CLICOLOR_FORCE (unset/0/1) x \
        {pty, pipe} x {stdout, stderr} x tty_only on/off x both orders of the builder's setters x {records end in a newline and \
        the process exits normally, no newline anywhere and the process ends with _exit} = 864 child processes running a real \
        ConsoleAppender over 5 levels with nested, truncated and right-aligned highlight groups; the bytes received on the target stream and the other stream are \
        compared with the policy of the statement (exhaustive); (c) random highlight patterns with width specs encoded through \
        the real AnsiWriter and compared byte for byte with the reference renderer; non-trivial: all; distinct = distinct case".to_owned();
    rep.assume("a variable counts as set when present and different from \"0\" (the crate's convention, applied to all three variables)");
    rep.assume("the Windows console path is not exercised");
    all_styles(rep);
    // children: sequential batches on a few threads (ptys are a limited resource)
    let saved = std::env::var("L4V_JOBS").ok();
    std::env::set_var("L4V_JOBS", "8");
    run_cases(rep, "console", 864, |rep, _rng, idx| console_case(rep, idx));
    match saved {
        Some(v) => std::env::set_var("L4V_JOBS", v),
        None => std::env::remove_var("L4V_JOBS"),
    }
    if rep.only.is_none() {
        seq_case(rep, false);
        seq_case(rep, true);
        for k in 0..4 {
            both_case(rep, k);
        }
        cfg_cases(rep);
    }
    let n = if rep.tier == "thorough" { 400_000 } else { 40_000 };
    run_cases(rep, "ansi", n, ansi_patterns);
    rep.exhaustive = Some(false);
    rep.set_extra("exhaustive_parts", json!("243 styles and the 864-cell environment matrix are enumerated completely; highlight patterns are sampled"));
    rep.require(rep.counter("console_children") >= 800, "fewer than 800 of the 864 console children completed");
    rep.require(rep.counter("styles_checked") == 243, "not all 243 styles were checked");
}
