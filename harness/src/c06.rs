//! C06 — size trigger rolls exactly when the limit is exceeded; size accounting is exact.

use crate::c05::{Engine, TrigSpec};
use crate::fsutil::Scratch;
use crate::par::run_cases;
use crate::report::Report;
use crate::rng::Rng;
use crate::rolling::*;
use serde_json::json;

fn history(rep: &mut Report, rng: &mut Rng, idx: u64) {
    let sc = Scratch::new("c06");
    let scripted_pre = rng.chance(1, 6);
    let limit: u64 = *rng.pick(&[0u64, 1, 2, 15, 16, 17, 18, 40, 1023, 1024, 1025, 5000, u64::MAX, 1 << 63, (1 << 63) + 1, i64::MAX as u64]);
    let trig = if scripted_pre {
        TrigSpec::Script { pre: true, decisions: (0..80).map(|_| rng.chance(1, 4)).collect() }
    } else {
        TrigSpec::Size(limit)
    };
    let roller = gen_roller(rng, false);
    let append_mode = rng.chance(2, 3);
    let enc_kind = *rng.pick(&[0u64, 1, 4, 99]);
    let mut e = Engine::new(sc.path.clone(), append_mode, roller, trig, enc_kind);
    // pre-existing file of an exact size around the limit
    let pre_size = match rng.below(7) {
        0 => None,
        1 => Some(0u64),
        2 => Some(limit.saturating_sub(1).min(10_000)),
        3 => Some(limit.min(10_000)),
        4 => Some(limit.saturating_add(1).min(10_000)),
        5 => Some(limit.saturating_mul(3).min(10_000)),
        _ => Some(rng.below(2000)),
    };
    if let Some(sz) = pre_size {
        let content: Vec<u8> = std::iter::repeat(b'x').take(sz as usize).collect();
        std::fs::write(sc.join(ACTIVE), &content).unwrap();
        if append_mode {
            e.active = Some(content);
        }
    }
    let mut judged = 0usize;
    let report = |rep: &mut Report, e: &Engine, sig: &str, what: String| {
        rep.violation(&format!("C06:{}", sig), json!({"history": e.describe(), "limit": limit,
            "pre_existing_size": pre_size, "what": what}));
    };
    macro_rules! step {
        ($r:expr) => {{
            let r = $r;
            // judge every policy consultation seen so far
            while judged < e.decisions_seen.len() {
                let d = e.decisions_seen[judged].clone();
                judged += 1;
                rep.count("policy_consultations_observed", 1);
                match d.disk_len {
                    None => {
                        report(rep, &e, "file-missing-at-consultation", "the active file did not exist when the policy was consulted".into());
                        return;
                    }
                    Some(disk) => {
                        if d.len_estimate != disk {
                            report(rep, &e, "size-estimate-differs-from-disk", format!(
                                "consultation #{}: len_estimate() = {}, true on-disk size = {}", judged, d.len_estimate, disk));
                            return;
                        }
                        if !scripted_pre {
                            let want = disk > limit;
                            if d.result != Ok(want) {
                                report(rep, &e, if want { "roll-deferred" } else { "roll-too-early" }, format!(
                                    "consultation #{}: file has {} bytes, limit {}, trigger answered {:?}", judged, disk, limit, d.result));
                                return;
                            }
                            if disk == limit || Some(disk) == limit.checked_add(1) {
                                rep.count("consultations_exactly_at_the_boundary", 1);
                            }
                        }
                    }
                }
            }
            if let Err((sig, what)) = r {
                if sig == "INCONCLUSIVE" {
                    rep.inconclusive(&what);
                } else {
                    report(rep, &e, &sig, what);
                }
                return;
            }
            if !scripted_pre {
                // after every append: at most N bytes, or just rotated away
                if let Ok(m) = std::fs::metadata(sc.join(ACTIVE)) {
                    if m.len() > limit && e.ops.last().map(|o| o.starts_with('a')).unwrap_or(false) {
                        report(rep, &e, "active-file-over-limit-after-append", format!("active file has {} bytes > limit {}", m.len(), limit));
                        return;
                    }
                }
            }
        }};
    }
    step!(e.open());
    let n_ops = 3 + rng.usize_below(55);
    let mut seq = 0;
    let mut next_literal = 0usize;
    for _ in 0..n_ops {
        if rng.chance(1, 10) {
            step!(e.open());
            rep.count("restarts", 1);
            continue;
        }
        // with the pattern encoder ({m}{n}) a few records are literal messages
        if enc_kind == 0 && next_literal < crate::frames::LITERAL_FRAMES.len() && rng.chance(1, 5) {
            let (lseq, llen, text) = crate::frames::LITERAL_FRAMES[next_literal];
            next_literal += 1;
            debug_assert_eq!(crate::frames::message_for(crate::frames::LITERAL_TID, lseq, llen, false), text);
            rep.count("literal_messages_appended", 1);
            step!(e.append(crate::frames::LITERAL_TID, lseq, Some(llen)));
            continue;
        }
        let len = crate::c05::sizes_around(limit, rng);
        let len = if enc_kind == 0 && len.is_none() { Some(0) } else { len };
        step!(e.append(1, seq, len));
        seq += 1;
    }
    rep.count("rotations_observed", e.rotations as i64);
    rep.count("appends_during_which_the_policy_was_not_consulted", e.unconsulted_appends as i64);
    rep.case(&format!("{}|{:?}", e.describe(), pre_size), e.consultations > 0);
    if idx < 3 {
        rep.sample(json!({"history": e.describe(), "limit": limit, "pre_existing_size": pre_size}));
    }
}

/// The same observation with several writer threads: the policy is consulted under the appender's lock,
/// so the size it is shown must equal the on-disk size at that very moment.
fn concurrent(rep: &mut Report, rng: &mut Rng, idx: u64) {
    use crate::c04::{append_frame, take_panic};
    use log4rs::append::Append;
    use std::sync::{Arc, Barrier};
    let sc = Scratch::new("c06c");
    let limit = *rng.pick(&[0u64, 40, 200, 1024, 3000]);
    let threads = 2 + rng.usize_below(7);
    let per = 40 + rng.usize_below(150);
    let roller = gen_roller(rng, false);
    let mut e = Engine::new(sc.path.clone(), true, roller, TrigSpec::Size(limit), *rng.pick(&[1u64, 3, 99]));
    let desc = json!({"threads": threads, "records_per_thread": per, "limit": limit, "roller": e.roller.describe()});
    if let Err((sig, what)) = e.open() {
        rep.violation(&format!("C06:{}", sig), json!({"run": desc, "what": what}));
        return;
    }
    let app: Arc<Box<dyn Append>> = Arc::new(e.app.take().unwrap());
    let barrier = Arc::new(Barrier::new(threads));
    let failed = Arc::new(std::sync::atomic::AtomicU64::new(0));
    std::thread::scope(|s| {
        for t in 0..threads {
            let (app, barrier, failed) = (app.clone(), barrier.clone(), failed.clone());
            let seed = rng.next_u64();
            s.spawn(move || {
                let mut r = Rng::new(seed);
                barrier.wait();
                for seq in 0..per as u32 {
                    let a = append_frame(&**app, t as u32 + 1, seq, *r.pick(&[0usize, 10, 30, 100, 1010]), true);
                    let _ = take_panic();
                    if !a.ok {
                        failed.fetch_add(1, std::sync::atomic::Ordering::Relaxed);
                    }
                }
            });
        }
    });
    drop(app);
    rep.case(&format!("{}|{}", desc, idx), true);
    rep.count("concurrent_runs", 1);
    if failed.load(std::sync::atomic::Ordering::Relaxed) > 0 {
        rep.violation("C06:concurrent:append-failed", json!({"run": desc, "failed_appends": failed.load(std::sync::atomic::Ordering::Relaxed)}));
    }
    let decisions = e.dec_log.lock().unwrap().clone();
    for (k, d) in decisions.iter().enumerate() {
        rep.count("policy_consultations_observed", 1);
        rep.count("concurrent_consultations_observed", 1);
        match d.disk_len {
            Some(disk) if disk == d.len_estimate => {
                if d.result != Ok(disk > limit) {
                    rep.violation("C06:concurrent:wrong-decision", json!({"run": desc, "consultation": k, "size": disk, "answer": format!("{:?}", d.result)}));
                    return;
                }
            }
            other => {
                rep.violation("C06:concurrent:size-estimate-differs-from-disk", json!({"run": desc, "consultation": k,
                    "len_estimate": d.len_estimate, "on_disk": format!("{:?}", other)}));
                return;
            }
        }
    }
}

/// The log path is a symbolic link to the real file (`current.log -> app-2026-10.log`): the size shown
/// to the policy is the size of the file behind the link.
fn symlinked(rep: &mut Report, rng: &mut Rng, idx: u64) {
    use crate::c04::{append_frame, take_panic};
    use log4rs::append::rolling_file::policy::compound::trigger::size::SizeTrigger;
    let sc = Scratch::new("c06s");
    let real = sc.join("real-2026-10.log");
    let pre = rng.usize_below(3000);
    std::fs::write(&real, vec![b'x'; pre]).unwrap();
    std::os::unix::fs::symlink(&real, sc.join(ACTIVE)).unwrap();
    let limit = 1u64 << 40; // never reached: only the accounting is judged
    let log = std::sync::Arc::new(std::sync::Mutex::new(vec![]));
    let trig = RecTrigger { inner: Box::new(SizeTrigger::new(limit)), log: log.clone() };
    let desc = json!({"log_path": "symbolic link to the real file", "pre_existing_bytes": pre});
    rep.case(&format!("{}|{}", desc, idx), true);
    for round in 0..2 {
        let app = match build_appender(&sc.path, true, Box::new(crate::frames::ChunkEnc { pieces: 1 }),
            Box::new(RecTrigger { inner: Box::new(SizeTrigger::new(limit)), log: log.clone() }),
            Box::new(log4rs::append::rolling_file::policy::compound::roll::delete::DeleteRoller::new())) {
            Ok(a) => a,
            Err(e) => {
                rep.inconclusive(&format!("cannot build appender on a symlinked path: {}", e));
                return;
            }
        };
        for seq in 0..5u32 {
            let _ = append_frame(&app, 1, round * 10 + seq, *rng.pick(&[5usize, 60, 1100]), true);
            let _ = take_panic();
        }
    }
    let _ = trig;
    for (k, d) in log.lock().unwrap().iter().enumerate() {
        rep.count("policy_consultations_observed", 1);
        rep.count("consultations_through_a_symlinked_path", 1);
        if d.disk_len != Some(d.len_estimate) {
            rep.violation("C06:size-estimate-differs-from-disk:symlinked-log-path", json!({"run": desc, "consultation": k,
                "len_estimate": d.len_estimate, "on_disk": format!("{:?}", d.disk_len)}));
            return;
        }
    }
}

/// A roller that sometimes fails and leaves the file in place (what a full disk or a busy archive
/// directory does): the size shown to the policy must stay exact across the failed rotation.
#[derive(Debug)]
struct FlakyRoller {
    fail_next: std::sync::Mutex<std::collections::VecDeque<bool>>,
}

impl log4rs::append::rolling_file::policy::compound::roll::Roll for FlakyRoller {
    fn roll(&self, file: &std::path::Path) -> anyhow::Result<()> {
        if self.fail_next.lock().unwrap().pop_front().unwrap_or(false) {
            anyhow::bail!("scripted roller failure");
        }
        std::fs::remove_file(file).map_err(Into::into)
    }
}

fn flaky(rep: &mut Report, rng: &mut Rng, idx: u64) {
    use crate::c04::{append_frame, take_panic};
    use log4rs::append::rolling_file::policy::compound::trigger::size::SizeTrigger;
    let sc = Scratch::new("c06f");
    let limit = *rng.pick(&[40u64, 100, 1024]);
    let append_mode = rng.chance(2, 3);
    let script: std::collections::VecDeque<bool> = (0..40).map(|_| rng.chance(1, 3)).collect();
    let log = std::sync::Arc::new(std::sync::Mutex::new(vec![]));
    let trig = RecTrigger { inner: Box::new(SizeTrigger::new(limit)), log: log.clone() };
    let desc = json!({"limit": limit, "open_mode": if append_mode { "append" } else { "truncate" },
        "roller_failures": script.iter().map(|b| if *b { 'F' } else { '.' }).collect::<String>()});
    let app = match build_appender(&sc.path, append_mode, Box::new(crate::frames::ChunkEnc { pieces: 1 }), Box::new(trig),
        Box::new(FlakyRoller { fail_next: std::sync::Mutex::new(script) })) {
        Ok(a) => a,
        Err(e) => {
            rep.inconclusive(&format!("cannot build appender: {}", e));
            return;
        }
    };
    rep.case(&format!("{}|{}", desc, idx), true);
    let mut errs = 0;
    for seq in 0..(10 + rng.usize_below(40)) as u32 {
        let a = append_frame(&app, 1, seq, *rng.pick(&[5usize, 20, 60, 200]), true);
        if let Some(p) = take_panic() {
            rep.violation("C06:flaky:panic", json!({"run": desc, "panic": p}));
            return;
        }
        if !a.ok {
            errs += 1;
        }
    }
    rep.count("appends_that_reported_a_failed_roll", errs);
    let decisions = log.lock().unwrap().clone();
    for (k, d) in decisions.iter().enumerate() {
        rep.count("policy_consultations_observed", 1);
        rep.count("consultations_with_flaky_roller", 1);
        if d.disk_len != Some(d.len_estimate) {
            rep.violation("C06:size-estimate-differs-from-disk:after-failed-roll", json!({"run": desc, "consultation": k,
                "len_estimate": d.len_estimate, "on_disk": format!("{:?}", d.disk_len)}));
            return;
        }
        if d.result != Ok(d.len_estimate > limit) {
            rep.violation("C06:flaky:wrong-decision", json!({"run": desc, "consultation": k}));
            return;
        }
    }
}

/// An encoder that writes part of some records and then reports an error (an I/O error half-way, a
/// `Display` that fails): the bytes it did write are in the file, and the policy must be shown them.
#[derive(Debug)]
struct FailingEnc {
    fail_every: u64,
    calls: std::sync::atomic::AtomicU64,
}

impl log4rs::encode::Encode for FailingEnc {
    fn encode(&self, w: &mut dyn log4rs::encode::Write, record: &log::Record) -> anyhow::Result<()> {
        let s = record.args().to_string();
        let n = self.calls.fetch_add(1, std::sync::atomic::Ordering::Relaxed);
        if n % self.fail_every == self.fail_every - 1 {
            w.write_all(&s.as_bytes()[..s.len() / 2])?;
            anyhow::bail!("scripted encoder failure after half of the record");
        }
        w.write_all(s.as_bytes())?;
        Ok(())
    }
}

fn failing_encoder(rep: &mut Report, rng: &mut Rng, idx: u64) {
    use log4rs::append::rolling_file::policy::compound::trigger::size::SizeTrigger;
    let sc = Scratch::new("c06e");
    let limit = *rng.pick(&[50u64, 200, 1024, 1500]);
    let log: std::sync::Arc<std::sync::Mutex<Vec<crate::rolling::Decision>>> = Default::default();
    let trig = crate::rolling::RecTrigger { inner: Box::new(SizeTrigger::new(limit)), log: log.clone() };
    let enc = FailingEnc { fail_every: 2 + rng.below(4), calls: Default::default() };
    let app = match crate::rolling::build_appender(&sc.path, true, Box::new(enc), Box::new(trig),
        Box::new(log4rs::append::rolling_file::policy::compound::roll::delete::DeleteRoller::new())) {
        Ok(a) => a,
        Err(e) => {
            rep.inconclusive(&format!("cannot build a rolling appender: {}", e));
            return;
        }
    };
    let n = 5 + rng.usize_below(40);
    let mut failed = 0;
    for seq in 0..n as u32 {
        let len = *rng.pick(&[0usize, 10, 40, 300, 1100]);
        let a = crate::c04::append_frame(&app, 1, seq, len, true);
        if let Some(p) = crate::c04::take_panic() {
            rep.violation("C06:panic:append", json!({"limit": limit, "panic": p}));
            return;
        }
        if !a.ok {
            failed += 1;
        }
    }
    rep.case(&format!("failing-encoder|{}|{}|{}", limit, n, idx), true);
    rep.count("appends_whose_encoder_failed_half_way", failed);
    for (k, d) in log.lock().unwrap().iter().enumerate() {
        rep.count("policy_consultations_observed", 1);
        if Some(d.len_estimate) != d.disk_len {
            rep.violation("C06:size-estimate-differs-from-disk:after-a-failed-encode", json!({"limit": limit, "appends": n,
                "appends_that_failed": failed, "what": format!("consultation #{}: len_estimate() = {}, true on-disk size = {:?}", k + 1, d.len_estimate, d.disk_len)}));
            return;
        }
    }
}

pub fn run(rep: &mut Report) {
    crate::hooks::install();
    rep.rule = "histories of 3-58 operations on a rolling appender with the real SizeTrigger (limits 0,1,2, around the frame size, \
        1023/1024/1025, 5000) or a pre-processing scripted trigger; records of multi-byte text sized around the limit and the 1 KiB \
        buffer, empty records, records larger than both; pre-existing files of size absent/0/N-1/N/N+1/3N; both open modes; \
        restarts; at EVERY policy consultation a recording wrapper compares LogFile::len_estimate() with fs::metadata().len() and \
        the trigger's answer with (size > N); after every append the directory is compared with the exact model; non-trivial = \
        at least one consultation; distinct = distinct history".to_owned();
    rep.assume("the size is observed at the Trigger boundary (a wrapper around the real SizeTrigger), i.e. exactly what the policy is shown");
    let n = if rep.tier == "thorough" { 30_000 } else { 5_000 };
    run_cases(rep, "history", n, history);
    run_cases(rep, "flaky", if rep.tier == "thorough" { 4_000 } else { 400 }, flaky);
    run_cases(rep, "symlinked", if rep.tier == "thorough" { 1_000 } else { 100 }, symlinked);
    run_cases(rep, "failing-encoder", if rep.tier == "thorough" { 2_000 } else { 200 }, failing_encoder);
    let saved = std::env::var("L4V_JOBS").ok();
    std::env::set_var("L4V_JOBS", "3");
    run_cases(rep, "concurrent", if rep.tier == "thorough" { 300 } else { 30 }, concurrent);
    match saved {
        Some(v) => std::env::set_var("L4V_JOBS", v),
        None => std::env::remove_var("L4V_JOBS"),
    }
    rep.require(rep.counter("policy_consultations_observed") > 5_000, "fewer than 5000 policy consultations observed");
    rep.require(rep.counter("consultations_exactly_at_the_boundary") > 50, "the size == limit / limit+1 boundary was hardly reached");
    rep.require(rep.counter("rotations_observed") > 500, "fewer than 500 rotations");
    rep.require(rep.counter("concurrent_consultations_observed") > 1000, "too few consultations under concurrent writers");
    rep.require(rep.counter("appends_that_reported_a_failed_roll") > 50, "too few failed rolls in the flaky-roller histories");
}
