//! C03 — filter chains decide per appender; rejections and errors are isolated.

use crate::par::run_cases;
use crate::report::Report;
use crate::rng::Rng;
use crate::routing::{FILTERS, LEVELS};
use crate::trap;
use log::{Level, LevelFilter, Record};
use log4rs::append::Append;
use log4rs::config::{Appender, Config, Logger, Root};
use log4rs::filter::threshold::ThresholdFilter;
use log4rs::filter::{Filter, Response};
use serde_json::{json, Value};
use std::sync::{Arc, Mutex};

#[derive(Clone, Copy, Debug, PartialEq, Eq)]
enum R {
    A,
    N,
    Rj,
}

impl R {
    fn ch(self) -> char {
        match self {
            R::A => 'A',
            R::N => 'N',
            R::Rj => 'R',
        }
    }
}

#[derive(Clone, Debug, PartialEq, Eq)]
enum Ev {
    Filter { app: usize, pos: usize, rec: u64 },
    Append { app: usize, rec: u64 },
    Handler { text: String },
}

type Log = Arc<Mutex<Vec<Ev>>>;

fn rec_id(record: &Record) -> u64 {
    record.args().to_string().parse().unwrap_or(u64::MAX)
}

#[derive(Debug)]
struct ScriptF {
    app: usize,
    pos: usize,
    resp: R,
    log: Log,
}

impl Filter for ScriptF {
    fn filter(&self, record: &Record) -> Response {
        self.log.lock().unwrap().push(Ev::Filter {
            app: self.app,
            pos: self.pos,
            rec: rec_id(record),
        });
        match self.resp {
            R::A => Response::Accept,
            R::N => Response::Neutral,
            R::Rj => Response::Reject,
        }
    }
}

#[derive(Debug)]
struct ScriptA {
    app: usize,
    fail: bool,
    log: Log,
}

impl Append for ScriptA {
    fn append(&self, record: &Record) -> anyhow::Result<()> {
        let rec = rec_id(record);
        self.log.lock().unwrap().push(Ev::Append { app: self.app, rec });
        if self.fail {
            Err(anyhow::anyhow!("ERRTAG app={} rec={}", self.app, rec))
        } else {
            Ok(())
        }
    }
    fn flush(&self) {}
}

/// The same capture behind the `log::Log` trait (log4rs accepts any `Log` as an appender). Its own
/// `enabled` says no to everything: delivery is decided by the filter chain, not by the appender.
#[derive(Debug)]
struct LogA {
    app: usize,
    log: Log,
}

impl log::Log for LogA {
    fn enabled(&self, _: &log::Metadata) -> bool {
        false
    }
    fn log(&self, record: &Record) {
        let rec = rec_id(record);
        self.log.lock().unwrap().push(Ev::Append { app: self.app, rec });
    }
    fn flush(&self) {}
}

/// One filter of a chain: scripted response or the real threshold filter.
#[derive(Clone, Copy, Debug, PartialEq)]
enum F {
    S(R),
    T(LevelFilter),
}

impl F {
    fn show(&self) -> String {
        match self {
            F::S(r) => r.ch().to_string(),
            F::T(l) => format!("T({})", l),
        }
    }
    /// Response according to the property statement.
    fn model(&self, level: Level) -> R {
        match *self {
            F::S(r) => r,
            // "the threshold filter rejects exactly the records more verbose than its level"
            F::T(t) => {
                if level > t {
                    R::Rj
                } else {
                    R::N
                }
            }
        }
    }
}

#[derive(Clone, Debug)]
struct AppSpec {
    chain: Vec<F>,
    fail: bool,
}

struct Built {
    logger: log4rs::Logger,
    log: Log,
}

// ---- the same components behind config-file kinds ("script" filter, "capture" appender)

#[derive(serde::Deserialize)]
struct ScriptFCfg {
    app: usize,
    resp: String,
}
/// The position of a scripted filter is not written in the document (two entries with the same response are
/// then *identical* entries): it is the filter's index in the appender's declared chain, counted as the
/// entries are deserialized.
struct ScriptFDeser(Log, Mutex<std::collections::HashMap<usize, Vec<usize>>>);
impl log4rs::config::Deserialize for ScriptFDeser {
    type Trait = dyn Filter;
    type Config = ScriptFCfg;
    fn deserialize(&self, c: ScriptFCfg, _: &log4rs::config::Deserializers) -> anyhow::Result<Box<dyn Filter>> {
        let resp = match c.resp.as_str() {
            "A" => R::A,
            "N" => R::N,
            _ => R::Rj,
        };
        let mut m = self.1.lock().unwrap();
        let slots = m.entry(c.app).or_default();
        let pos = if slots.is_empty() { 0 } else { slots.remove(0) };
        Ok(Box::new(ScriptF { app: c.app, pos, resp, log: self.0.clone() }))
    }
}

#[derive(serde::Deserialize)]
struct CaptureCfg {
    app: usize,
    fail: bool,
}
struct CaptureDeser(Log);
impl log4rs::config::Deserialize for CaptureDeser {
    type Trait = dyn Append;
    type Config = CaptureCfg;
    fn deserialize(&self, c: CaptureCfg, _: &log4rs::config::Deserializers) -> anyhow::Result<Box<dyn Append>> {
        Ok(Box::new(ScriptA { app: c.app, fail: c.fail, log: self.0.clone() }))
    }
}

/// The configuration as a document loaded with `load_config_file` (filters in declaration order).
fn build_from_document(apps: &[AppSpec], root_level: LevelFilter, on_child: &[usize]) -> Result<Built, String> {
    let log: Log = Arc::new(Mutex::new(vec![]));
    let mut appenders = serde_json::Map::new();
    let mut positions: std::collections::HashMap<usize, Vec<usize>> = Default::default();
    for (i, a) in apps.iter().enumerate() {
        let filters: Vec<Value> = a.chain.iter().enumerate().map(|(pos, f)| match *f {
            F::S(resp) => {
                positions.entry(i).or_insert_with(Vec::new).push(pos);
                json!({"kind": "script", "app": i, "resp": resp.ch().to_string()})
            }
            F::T(l) => json!({"kind": "threshold", "level": l.to_string()}),
        }).collect();
        appenders.insert(format!("app{}", i), json!({"kind": "capture", "app": i, "fail": a.fail, "filters": filters}));
    }
    let doc = json!({
        "appenders": appenders,
        "root": {"level": root_level.to_string(), "appenders": (0..apps.len()).map(|i| format!("app{}", i)).collect::<Vec<_>>()},
        "loggers": {"c": {"level": "trace", "additive": true, "appenders": on_child.iter().map(|i| format!("app{}", i)).collect::<Vec<_>>()}},
    });
    let sc = crate::fsutil::Scratch::new("c03doc");
    let path = sc.join("log4rs.json");
    std::fs::write(&path, doc.to_string()).map_err(|e| e.to_string())?;
    let mut d = log4rs::config::Deserializers::default();
    d.insert("script", ScriptFDeser(log.clone(), Mutex::new(positions)));
    d.insert("capture", CaptureDeser(log.clone()));
    let cfg = log4rs::config::load_config_file(&path, d).map_err(|e| format!("{:#}", e))?;
    if cfg.appenders().len() != apps.len() {
        return Err(format!("the document declares {} appenders, the loaded configuration has {}", apps.len(), cfg.appenders().len()));
    }
    let hlog = log.clone();
    let logger = log4rs::Logger::new_with_err_handler(
        cfg,
        Box::new(move |e: &anyhow::Error| hlog.lock().unwrap().push(Ev::Handler { text: e.to_string() })),
    );
    Ok(Built { logger, log })
}

/// `apps` are all attached to the root (level `root_level`); `on_child` lists
/// those additionally attached to logger "c" (additive).
fn build(apps: &[AppSpec], root_level: LevelFilter, on_child: &[usize]) -> Result<Built, String> {
    // a quarter of the configurations come from a configuration file with custom component kinds
    if (apps.len() + apps.iter().map(|a| a.chain.len()).sum::<usize>()) % 4 == 3 {
        return build_from_document(apps, root_level, on_child);
    }
    let log: Log = Arc::new(Mutex::new(vec![]));
    let mut b = Config::builder();
    let mut root = Root::builder();
    for (i, a) in apps.iter().enumerate() {
        let mut ab = Appender::builder();
        let mut boxes: Vec<Box<dyn Filter>> = vec![];
        for (pos, f) in a.chain.iter().enumerate() {
            let boxed: Box<dyn Filter> = match *f {
                F::S(resp) => Box::new(ScriptF {
                    app: i,
                    pos,
                    resp,
                    log: log.clone(),
                }),
                F::T(l) => Box::new(ThresholdFilter::new(l)),
            };
            boxes.push(boxed);
        }
        // every way of declaring the same chain through the builder: one by one, in bulk, mixed
        match (i + a.chain.len()) % 3 {
            0 => {
                for bx in boxes {
                    ab = ab.filter(bx);
                }
            }
            1 => ab = ab.filters(boxes),
            _ => {
                let mut it = boxes.into_iter();
                if let Some(first) = it.next() {
                    ab = ab.filter(first);
                }
                let mut rest: Vec<Box<dyn Filter>> = it.collect();
                let last = if rest.len() >= 2 { rest.pop() } else { None };
                ab = ab.filters(rest);
                if let Some(l) = last {
                    ab = ab.filter(l);
                }
            }
        }
        let sink: Box<dyn Append> = if !a.fail && i % 3 == 2 {
            Box::new(LogA { app: i, log: log.clone() })
        } else {
            Box::new(ScriptA {
                app: i,
                fail: a.fail,
                log: log.clone(),
            })
        };
        b = b.appender(ab.build(format!("app{}", i), sink));
        root = root.appender(format!("app{}", i));
    }
    let mut child = Logger::builder().additive(true);
    for i in on_child {
        child = child.appender(format!("app{}", i));
    }
    b = b.logger(child.build("c", LevelFilter::Trace));
    let cfg = b.build(root.build(root_level)).map_err(|e| format!("{:?}", e))?;
    let hlog = log.clone();
    let logger = log4rs::Logger::new_with_err_handler(
        cfg,
        Box::new(move |e: &anyhow::Error| {
            hlog.lock().unwrap().push(Ev::Handler {
                text: e.to_string(),
            })
        }),
    );
    Ok(Built { logger, log })
}

fn describe(apps: &[AppSpec]) -> Value {
    json!(apps
        .iter()
        .map(|a| json!({
            "chain": a.chain.iter().map(|f| f.show()).collect::<Vec<_>>().join(","),
            "fail": a.fail}))
        .collect::<Vec<_>>())
}

/// Expected events of appender `i` for one record delivered to it `times` times.
fn expected_for(i: usize, a: &AppSpec, level: Level, rec: u64, times: usize) -> (Vec<Ev>, usize) {
    let mut evs = vec![];
    let mut handler = 0;
    for _ in 0..times {
        let mut delivered = true;
        for (pos, f) in a.chain.iter().enumerate() {
            if let F::S(_) = f {
                evs.push(Ev::Filter { app: i, pos, rec });
            }
            match f.model(level) {
                R::A => break,
                R::N => {}
                R::Rj => {
                    delivered = false;
                    break;
                }
            }
        }
        if delivered {
            evs.push(Ev::Append { app: i, rec });
            if a.fail {
                handler += 1;
            }
        }
    }
    (evs, handler)
}

fn check_one(
    rep: &mut Report,
    apps: &[AppSpec],
    root_level: LevelFilter,
    on_child: &[usize],
    target: &str,
    level: Level,
    rec: u64,
    built: &Built,
) {
    built.log.lock().unwrap().clear();
    let r = trap::catch(|| {
        log::Log::log(
            &built.logger,
            &Record::builder()
                .target(target)
                .level(level)
                .args(format_args!("{}", rec))
                .build(),
        )
    });
    let desc = json!({"appenders": describe(apps), "root_level": root_level.to_string(),
        "also_on_child_c": on_child, "target": target, "level": level.to_string()});
    if let Err(p) = r {
        rep.violation(
            &format!("C03:panic:{}", p.site()),
            json!({"case": desc, "panic": p.message}),
        );
        return;
    }
    let got: Vec<Ev> = built.log.lock().unwrap().clone();
    let admitted = if target == "c" || target.starts_with("c::") {
        true // logger c has level Trace
    } else {
        root_level >= level
    };
    let mut want_handler: Vec<String> = vec![];
    for (i, a) in apps.iter().enumerate() {
        let mut times = 0;
        if admitted {
            times = 1;
            if (target == "c" || target.starts_with("c::")) && on_child.contains(&i) {
                times += on_child.iter().filter(|x| **x == i).count();
            }
        }
        let (want, nh) = expected_for(i, a, level, rec, times);
        let got_i: Vec<Ev> = got
            .iter()
            .filter(|e| match e {
                Ev::Filter { app, .. } | Ev::Append { app, .. } => *app == i,
                _ => false,
            })
            .cloned()
            .collect();
        rep.count("appender_observations", 1);
        rep.count("filter_calls_observed", got_i.iter().filter(|e| matches!(e, Ev::Filter { .. })).count() as i64);
        if got_i != want {
            rep.violation(
                "C03:filter-chain",
                json!({"case": desc, "appender": i, "expected_events": format!("{:?}", want),
                       "observed_events": format!("{:?}", got_i)}),
            );
        }
        for _ in 0..nh {
            want_handler.push(format!("ERRTAG app={} rec={}", i, rec));
        }
    }
    let mut got_handler: Vec<String> = got
        .iter()
        .filter_map(|e| match e {
            Ev::Handler { text } => Some(text.clone()),
            _ => None,
        })
        .collect();
    got_handler.sort();
    want_handler.sort();
    rep.count("handler_calls_observed", got_handler.len() as i64);
    if got_handler != want_handler {
        rep.violation(
            "C03:error-handler",
            json!({"case": desc, "expected_handler_calls": want_handler, "observed_handler_calls": got_handler}),
        );
    }
}

fn all_chains(max_len: usize) -> Vec<Vec<R>> {
    let mut out = vec![vec![]];
    let mut frontier = vec![vec![]];
    for _ in 0..max_len {
        let mut next = vec![];
        for c in &frontier {
            for r in [R::A, R::N, R::Rj] {
                let mut d: Vec<R> = c.clone();
                d.push(r);
                next.push(d);
            }
        }
        out.extend(next.iter().cloned());
        frontier = next;
    }
    out
}

fn gen_chain(rng: &mut Rng) -> Vec<F> {
    let n = rng.usize_below(5);
    (0..n)
        .map(|_| {
            if rng.chance(1, 4) {
                F::T(*rng.pick(&FILTERS))
            } else {
                // Neutral-heavy so that long prefixes are consulted
                F::S(*rng.pick(&[R::A, R::N, R::N, R::Rj]))
            }
        })
        .collect()
}

pub fn run(rep: &mut Report) {
    rep.rule = "exhaustive: all 121 scripted chains over {Accept,Neutral,Reject} of length <=4 x fail/succeed x position \
        among 1-3 appenders x 5 levels; all 6x5 threshold/level pairs alone, ahead of and behind scripted filters; \
        random mixes of 1-4 appenders (root + child logger, repeated attachment, failing appenders); a case is \
        non-trivial when some chain is non-empty or some appender fails; distinct = (appender specs, level, target)"
        .to_owned();
    rep.assume("filters and appenders are harness implementations that record every call; the real ThresholdFilter is mixed into the chains");
    let chains = all_chains(4);
    rep.set_extra("scripted_chains_enumerated", json!(chains.len()));

    // (1) exhaustive chains, as the only appender and next to neighbours
    let total = chains.len() as u64 * 2 * 3;
    run_cases(rep, "chains", total, |rep, _rng, idx| {
        let c = &chains[(idx / 6) as usize];
        let fail = (idx / 3) % 2 == 1;
        let pos = (idx % 3) as usize; // position among `pos+1`.. appenders
        let me = AppSpec {
            chain: c.iter().map(|r| F::S(*r)).collect(),
            fail,
        };
        // neighbours: a failing appender with a Reject-first chain, and a healthy plain one
        let n1 = AppSpec { chain: vec![F::S(R::N), F::S(R::Rj)], fail: true };
        let n2 = AppSpec { chain: vec![], fail: !fail };
        let apps: Vec<AppSpec> = match pos {
            0 => vec![me],
            1 => vec![n2, me, n1],
            _ => vec![n1, n2, me],
        };
        let built = match build(&apps, LevelFilter::Trace, &[]) {
            Ok(b) => b,
            Err(e) => {
                rep.violation("C03:valid-config-rejected", json!({"error": e}));
                return;
            }
        };
        for (k, lvl) in LEVELS.iter().enumerate() {
            rep.case(&format!("chains|{}|{}", idx, lvl), !c.is_empty() || fail);
            check_one(rep, &apps, LevelFilter::Trace, &[], "x", *lvl, idx * 10 + k as u64, &built);
        }
        if idx == 500 {
            rep.sample(json!({"appenders": describe(&apps), "levels": "all 5"}));
        }
    });

    // (2) real threshold filter, all pairs, three placements
    run_cases(rep, "threshold", 6 * 3, |rep, _rng, idx| {
        let t = FILTERS[(idx / 3) as usize];
        let chain = match idx % 3 {
            0 => vec![F::T(t)],
            1 => vec![F::T(t), F::S(R::Rj)], // a Neutral threshold must fall through to the Reject
            _ => vec![F::S(R::N), F::T(t), F::S(R::A), F::S(R::Rj)],
        };
        let apps = vec![
            AppSpec { chain, fail: false },
            AppSpec { chain: vec![], fail: false },
        ];
        let built = match build(&apps, LevelFilter::Trace, &[]) {
            Ok(b) => b,
            Err(e) => {
                rep.violation("C03:valid-config-rejected", json!({"error": e}));
                return;
            }
        };
        for (k, lvl) in LEVELS.iter().enumerate() {
            rep.case(&format!("threshold|{}|{}", idx, lvl), true);
            rep.count("threshold_pairs", 1);
            check_one(rep, &apps, LevelFilter::Trace, &[], "x", *lvl, idx * 10 + k as u64, &built);
        }
        if idx == 4 {
            rep.sample(json!({"appenders": describe(&apps), "levels": "all 5"}));
        }
    });

    // (3) random mixes
    let n = if rep.tier == "thorough" { 300_000 } else { 30_000 };
    run_cases(rep, "mix", n, |rep, rng, idx| {
        let k = 1 + rng.usize_below(4);
        let apps: Vec<AppSpec> = (0..k)
            .map(|_| AppSpec {
                chain: gen_chain(rng),
                fail: rng.chance(1, 3),
            })
            .collect();
        let root_level = *rng.pick(&FILTERS);
        let mut on_child = vec![];
        for i in 0..k {
            if rng.chance(1, 3) {
                on_child.push(i);
                if rng.chance(1, 4) {
                    on_child.push(i);
                }
            }
        }
        let built = match build(&apps, root_level, &on_child) {
            Ok(b) => b,
            Err(e) => {
                rep.violation("C03:valid-config-rejected", json!({"error": e}));
                return;
            }
        };
        let nontrivial = apps.iter().any(|a| !a.chain.is_empty() || a.fail);
        for (j, lvl) in LEVELS.iter().enumerate() {
            for (ti, target) in ["x", "c", "c::d"].iter().enumerate() {
                rep.case(
                    &format!("{}|{}|{}|{}|{:?}", describe(&apps), root_level, lvl, target, on_child),
                    nontrivial,
                );
                check_one(rep, &apps, root_level, &on_child, target, *lvl,
                    idx * 100 + (j * 3 + ti) as u64, &built);
            }
        }
        if idx < 2 {
            rep.sample(json!({"appenders": describe(&apps), "root_level": root_level.to_string(),
                "also_on_child_c": on_child}));
        }
    });
    // (4) hundreds of consecutive failing records under one configuration: every single error reaches the handler
    run_cases(rep, "streak", 4, |rep, _rng, idx| {
        let apps = vec![
            AppSpec { chain: vec![], fail: true },
            AppSpec { chain: vec![F::S(R::N)], fail: idx % 2 == 1 },
            AppSpec { chain: vec![], fail: false },
        ];
        let built = match build(&apps, LevelFilter::Trace, &[]) {
            Ok(b) => b,
            Err(e) => {
                rep.violation("C03:valid-config-rejected", json!({"error": e}));
                return;
            }
        };
        let n = if idx < 2 { 700 } else { 70_000 / 100 + 300 };
        for k in 0..n as u64 {
            rep.case(&format!("streak|{}|{}", idx, k), true);
            rep.count("records_in_long_failing_streaks", 1);
            check_one(rep, &apps, LevelFilter::Trace, &[], "x", LEVELS[(k % 5) as usize], 1_000_000 + idx * 10_000 + k, &built);
            if !rep.violations.is_empty() {
                break;
            }
        }
    });
    rep.exhaustive = Some(false);
    rep.require(rep.counter("filter_calls_observed") > 1000, "fewer than 1000 filter calls observed");
    rep.require(rep.counter("handler_calls_observed") > 100, "fewer than 100 error-handler calls observed");
}
