//! C16 — time trigger schedules the right boundary, fires once per boundary, never panics.

use crate::c04::{append_frame, take_panic};
use crate::c07::Comp;
use crate::calendar::*;
use crate::childproc::run_child;
use crate::fsutil::Scratch;
use crate::hooks;
use crate::par::run_cases;
use crate::report::Report;
use crate::rng::Rng;
use crate::rolling::*;
use crate::trap;
use chrono::{DateTime, Datelike, Duration, Local, LocalResult, NaiveDate, TimeZone, Timelike};
use log4rs::append::rolling_file::policy::compound::trigger::time::{TimeTrigger, TimeTriggerInterval};
use log4rs::append::rolling_file::policy::compound::trigger::Trigger;
use log4rs::append::rolling_file::LogFile;
use log4rs::encode::pattern::PatternEncoder;
use serde_json::{json, Value};
use std::sync::Arc;

pub const ZONES: [&str; 12] = [
    "UTC",
    "Etc/GMT+12",
    "Asia/Kolkata",
    "America/New_York",
    "Europe/London",
    "Australia/Lord_Howe",
    "America/Santiago",
    "Africa/Cairo",
    "EST5EDT,M3.2.0,M11.1.0",
    "NZST-12NZDT,M9.5.0,M4.1.0/3",
    "XXX-5:45",
    // an offset with a seconds part (local mean time, historical zones)
    "LMT-5:30:15",
];

fn interval(unit: Unit, n: i64) -> TimeTriggerInterval {
    match unit {
        Unit::Second => TimeTriggerInterval::Second(n),
        Unit::Minute => TimeTriggerInterval::Minute(n),
        Unit::Hour => TimeTriggerInterval::Hour(n),
        Unit::Day => TimeTriggerInterval::Day(n),
        Unit::Week => TimeTriggerInterval::Week(n),
        Unit::Month => TimeTriggerInterval::Month(n),
        Unit::Year => TimeTriggerInterval::Year(n),
    }
}

/// Hourly UTC-offset table of the current zone, 1969..2102, and its change points.
pub struct ZoneTable {
    t0: i64,
    changes: Vec<i64>, // timestamps (hour grid) at which the offset differs from the previous hour
}

fn offset_at(ts: i64) -> i32 {
    match Local.timestamp_opt(ts, 0) {
        LocalResult::Single(t) => t.offset().local_minus_utc(),
        _ => 0,
    }
}

impl ZoneTable {
    pub fn build() -> ZoneTable {
        let t0 = days_from_civil(1969, 1, 1) * 86400;
        let t1 = days_from_civil(2102, 1, 1) * 86400;
        let mut changes = vec![];
        // offsets only change at a few instants: scan daily, refine hourly
        let mut prev = offset_at(t0);
        let mut t = t0;
        while t < t1 {
            let next = t + 86400;
            let o = offset_at(next);
            if o != prev {
                let mut p = prev;
                let mut h = t;
                while h < next {
                    h += 1800;
                    let oh = offset_at(h);
                    if oh != p {
                        changes.push(h);
                        p = oh;
                    }
                }
            }
            prev = o;
            t = next;
        }
        ZoneTable { t0, changes }
    }
    /// No offset change in [a, b] (with a safety margin of one hour on both sides).
    pub fn constant_between(&self, a: i64, b: i64) -> bool {
        let t1 = days_from_civil(2101, 1, 1) * 86400;
        if a < self.t0 + 86400 || b > t1 {
            return false;
        }
        let (lo, hi) = (a - 3600, b + 3600);
        let i = self.changes.partition_point(|c| *c < lo);
        !(i < self.changes.len() && self.changes[i] <= hi)
    }
    pub fn changes_in_year(&self, y: i64) -> Vec<i64> {
        let a = days_from_civil(y, 1, 1) * 86400;
        let b = days_from_civil(y + 1, 1, 1) * 86400;
        self.changes.iter().cloned().filter(|c| *c >= a && *c < b).collect()
    }
}

fn naive_of(t: &DateTime<Local>) -> Naive {
    Naive::new(t.year() as i64, t.month() as i64, t.day() as i64, t.hour() as i64, t.minute() as i64, t.second() as i64)
}

fn local_instant(n: Naive) -> Option<DateTime<Local>> {
    let (y, m, d, h, mi, s) = n.ymd_hms();
    let nd = NaiveDate::from_ymd_opt(y as i32, m as u32, d as u32)?.and_hms_opt(h as u32, mi as u32, s as u32)?;
    match Local.from_local_datetime(&nd) {
        LocalResult::Single(t) => Some(t),
        _ => None,
    }
}

fn panic_class(msg: &str) -> &'static str {
    if msg.contains("No such local time") {
        "local-time-does-not-exist"
    } else if msg.contains("Ambiguous local time") {
        "local-time-is-ambiguous"
    } else if msg.contains("divisor of zero") || msg.contains("divide by zero") {
        "division-by-zero"
    } else if msg.contains("overflow") || msg.contains("out of bounds") || msg.contains("out of range") || msg.contains("out-of-range") {
        "arithmetic-overflow"
    } else if msg.contains("poisoned") || msg.contains("PoisonError") {
        "poisoned-lock-after-earlier-panic"
    } else {
        "other"
    }
}

/// One schedule computation, checked against K.
pub fn check_call(rep: &mut Report, zone: &str, table: &ZoneTable, ts: i64, nanos: u32, unit: Unit, n: i64, modulate: bool) {
    let LocalResult::Single(current) = Local.timestamp_opt(ts, nanos) else { return };
    rep.count("schedule_calls", 1);
    let d = || json!({"zone": zone, "current": current.to_rfc3339(), "unit": format!("{:?}", unit), "n": n, "modulate": modulate});
    let r = trap::catch(|| TimeTrigger::verif_get_next_time(current, interval(unit, n), modulate));
    let next = match r {
        Err(p) => {
            rep.violation(&format!("C16:panic:get_next_time:{}", panic_class(&p.message)), json!({"call": d(), "panic": p.message, "at": p.site()}));
            return;
        }
        Ok(t) => t,
    };
    if next <= current {
        rep.violation("C16:schedule-not-in-the-future", json!({"call": d(), "next": next.to_rfc3339()}));
        return;
    }
    let l = expected_next(naive_of(&current), unit, n, modulate);
    if let Some(want) = local_instant(l) {
        if table.constant_between(current.timestamp(), want.timestamp()) {
            rep.count("schedule_calls_with_boundary_assertion", 1);
            if next != want {
                rep.violation(&format!("C16:wrong-boundary:{:?}{}", unit, if modulate { ":modulate" } else { "" }),
                    json!({"call": d(), "expected": want.to_rfc3339(), "got": next.to_rfc3339()}));
            }
        }
    }
}

/// A trigger that shares the real TimeTrigger with the harness.
#[derive(Debug)]
struct Share(Arc<TimeTrigger>);
impl Trigger for Share {
    fn trigger(&self, f: &LogFile) -> anyhow::Result<bool> {
        self.0.trigger(f)
    }
    fn is_pre_process(&self) -> bool {
        self.0.is_pre_process()
    }
}

/// A roller that fails when told to (a full disk, a blocked archive path) and otherwise delegates.
#[derive(Debug)]
struct FlakyRoll {
    inner: Box<dyn log4rs::append::rolling_file::policy::compound::roll::Roll>,
    fail_next: Arc<std::sync::atomic::AtomicBool>,
}

impl log4rs::append::rolling_file::policy::compound::roll::Roll for FlakyRoll {
    fn roll(&self, file: &std::path::Path) -> anyhow::Result<()> {
        if self.fail_next.swap(false, std::sync::atomic::Ordering::SeqCst) {
            anyhow::bail!("scripted failure of the roller");
        }
        self.inner.roll(file)
    }
}

/// Stops and joins the observer thread on every way out of a history.
struct Observer {
    stop: Arc<std::sync::atomic::AtomicBool>,
    handle: Option<std::thread::JoinHandle<u64>>,
}

impl Drop for Observer {
    fn drop(&mut self) {
        self.stop.store(true, std::sync::atomic::Ordering::SeqCst);
        if let Some(h) = self.handle.take() {
            let _ = h.join();
        }
    }
}

fn history(rep: &mut Report, rng: &mut Rng, zone: &str, table: &ZoneTable, idx: u64) {
    let unit = *rng.pick(&UNITS[..]);
    let n = *rng.pick(&[1i64, 1, 2, 3, 5, 7, 12]);
    let modulate = rng.chance(1, 2);
    let delay = *rng.pick(&[0u64, 0, 1, 30]);
    // start near a transition of 2024 half of the time
    let year_changes = table.changes_in_year(2024);
    let start_ts = if !year_changes.is_empty() && rng.chance(1, 2) {
        *rng.pick(&year_changes[..]) + rng.range(-7200, 7200)
    } else {
        days_from_civil(2024, 1, 1) * 86400 + rng.range(0, 366 * 86400)
    };
    let unit_secs: i64 = match unit {
        Unit::Second => 1,
        Unit::Minute => 60,
        Unit::Hour => 3600,
        Unit::Day => 86400,
        Unit::Week => 7 * 86400,
        Unit::Month => 30 * 86400,
        Unit::Year => 365 * 86400,
    };
    let desc = json!({"zone": zone, "unit": format!("{:?}", unit), "n": n, "modulate": modulate, "max_random_delay": delay, "start_ts": start_ts});
    let sc = Scratch::new("c16");
    let kind = RollerKind::Window { base: 0, count: 3, comp: Comp::None, pattern_rel: "app.{}.log".into() };
    let LocalResult::Single(mut now) = Local.timestamp_opt(start_ts, 0) else { return };
    hooks::set_clock(Some(now));
    let built = trap::catch(|| Arc::new(TimeTrigger::new(TimeTrigger::verif_config(interval(unit, n), modulate, delay))));
    let tt = match built {
        Ok(t) => t,
        Err(p) => {
            rep.violation(&format!("C16:panic:TimeTrigger::new:{}", panic_class(&p.message)), json!({"history": desc, "panic": p.message}));
            hooks::set_clock(None);
            return;
        }
    };
    let check_schedule = |rep: &mut Report, at: DateTime<Local>, sched: DateTime<Local>, what: &str| -> bool {
        if sched <= at {
            rep.violation("C16:history:schedule-not-in-the-future", json!({"history": desc, "when": what, "now": at.to_rfc3339(), "scheduled": sched.to_rfc3339()}));
            return false;
        }
        let l = expected_next(naive_of(&at), unit, n, modulate);
        if let Some(want) = local_instant(l) {
            if table.constant_between(at.timestamp(), want.timestamp() + delay as i64) {
                let ok = sched >= want && (sched < want + Duration::seconds(delay.max(1) as i64));
                if !ok {
                    rep.violation("C16:history:wrong-schedule", json!({"history": desc, "when": what, "now": at.to_rfc3339(),
                        "scheduled": sched.to_rfc3339(), "expected_boundary": want.to_rfc3339(), "max_random_delay": delay}));
                    return false;
                }
                return true;
            }
        }
        true
    };
    let mut sched = tt.verif_next_roll_time();
    if !check_schedule(rep, now, sched, "construction") {
        hooks::set_clock(None);
        return;
    }
    let fail_next = Arc::new(std::sync::atomic::AtomicBool::new(false));
    let roller = Box::new(FlakyRoll { inner: kind.build(&sc.path).unwrap(), fail_next: fail_next.clone() });
    // in a quarter of the histories another thread keeps looking at the trigger (its Debug output, its schedule):
    // being looked at must not make it miss a boundary
    let _observer = if rng.chance(1, 4) {
        let stop = Arc::new(std::sync::atomic::AtomicBool::new(false));
        let (t2, s2) = (tt.clone(), stop.clone());
        rep.count("histories_with_an_observer_thread", 1);
        Some(Observer { stop, handle: Some(std::thread::spawn(move || {
            let mut n = 0u64;
            while !s2.load(std::sync::atomic::Ordering::SeqCst) {
                let _ = format!("{:?}", t2);
                let _ = t2.verif_next_roll_time();
                n += 1;
            }
            n
        })) })
    } else {
        None
    };
    let app = match build_appender(&sc.path, true, Box::new(PatternEncoder::new("{m}{n}")), Box::new(Share(tt.clone())), roller) {
        Ok(a) => a,
        Err(e) => {
            rep.inconclusive(&format!("cannot build appender: {}", e));
            hooks::set_clock(None);
            return;
        }
    };
    let mut win = WinModel::default();
    let mut active: Option<Vec<u8>> = Some(vec![]);
    let steps = 4 + rng.usize_below(20);
    let mut fired_n = 0;
    for seq in 0..steps as u32 {
        // arrival times: fractions of the unit, several units at once, sometimes zero
        let adv_ms: i64 = match rng.below(6) {
            0 => 0,
            1 => rng.range(1, 999),
            2 | 3 => rng.range(0, unit_secs * n * 1000 / 2),
            4 => rng.range(0, unit_secs * n * 1000 * 2),
            _ => unit_secs * n * 1000 * rng.range(1, 4) + rng.range(0, 5000),
        };
        now = now + Duration::milliseconds(adv_ms);
        hooks::set_clock(Some(now));
        // now and then the rotation that is due fails: the boundary is consumed (rescheduled), the record is refused,
        // and the next boundary is honoured like any other
        let roll_fails = now >= sched && rng.chance(1, 5);
        if roll_fails {
            fail_next.store(true, std::sync::atomic::Ordering::SeqCst);
        }
        let a = append_frame(&app, 1, seq, 12, false);
        rep.count("history_appends", 1);
        if let Some(p) = take_panic() {
            rep.violation(&format!("C16:panic:append:{}", panic_class(&p)), json!({"history": desc, "now": now.to_rfc3339(), "panic": p}));
            break;
        }
        if roll_fails {
            rep.count("history_rotations_that_failed", 1);
            if a.ok || fail_next.load(std::sync::atomic::Ordering::SeqCst) {
                rep.violation("C16:history:did-not-fire-on-first-record-at-or-after-the-schedule", json!({"history": desc, "now": now.to_rfc3339(),
                    "scheduled": sched.to_rfc3339(), "what": "a rotation was due (and scripted to fail); the roller was not called or the append did not report the failure"}));
                fail_next.store(false, std::sync::atomic::Ordering::SeqCst);
                break;
            }
            if let Err((sig, what)) = compare_dir(&dir_files(&sc.path), &kind, &win, &active) {
                rep.violation("C16:history:directory-after-a-failed-rotation", json!({"history": desc, "now": now.to_rfc3339(), "directory_check": sig, "what": what}));
                break;
            }
            let new_sched = tt.verif_next_roll_time();
            if !check_schedule(rep, now, new_sched, "reschedule after a rotation that failed") {
                break;
            }
            sched = new_sched;
            continue;
        }
        if !a.ok {
            rep.violation("C16:history:append-failed", json!({"history": desc, "now": now.to_rfc3339()}));
            break;
        }
        let want_fire = now >= sched;
        if want_fire {
            // fires before the record is written: the record starts the fresh file
            win.roll(&kind, active.take().unwrap_or_default());
            active = Some(vec![]);
            fired_n += 1;
        }
        active.as_mut().unwrap().extend(crate::frames::frame(1, seq, 12));
        if let Err((sig, what)) = compare_dir(&dir_files(&sc.path), &kind, &win, &active) {
            rep.violation(&format!("C16:history:{}", if want_fire { "did-not-fire-on-first-record-at-or-after-the-schedule" } else { "fired-before-the-scheduled-instant" }),
                json!({"history": desc, "now": now.to_rfc3339(), "scheduled": sched.to_rfc3339(), "directory_check": sig, "what": what}));
            break;
        }
        let new_sched = tt.verif_next_roll_time();
        if want_fire {
            if !check_schedule(rep, now, new_sched, "reschedule after firing") {
                break;
            }
        } else if new_sched != sched {
            rep.violation("C16:history:schedule-moved-without-firing", json!({"history": desc, "now": now.to_rfc3339(),
                "before": sched.to_rfc3339(), "after": new_sched.to_rfc3339()}));
            break;
        }
        sched = new_sched;
    }
    hooks::set_clock(None);
    rep.count("history_firings", fired_n);
    rep.case(&format!("{}|{}", desc, idx), true);
    if idx < 1 {
        rep.sample(json!({"history": desc, "appends": steps, "firings": fired_n}));
    }
}

const NS: [i64; 9] = [1, 2, 3, 5, 7, 12, 24, 60, 1000];

/// Runs inside a child whose TZ is the zone under test.
pub fn child_main(args: &[String]) -> i32 {
    let seed: u64 = args[0].parse().unwrap();
    let tier = args[1].clone();
    let zone = std::env::var("TZ").unwrap_or_default();
    hooks::install();
    trap::install();
    let thorough = tier == "thorough";
    let table = ZoneTable::build();
    let mut rep = Report::new("C16", &tier, seed, "exploration");
    rep.max_samples = 2;
    let zone_ref = &zone;
    let table_ref = &table;

    // (1) grids around every unit boundary of selected dates
    let dates: Vec<(i64, i64, i64)> = vec![
        (2024, 1, 1), (2023, 12, 31), (2024, 2, 28), (2024, 2, 29), (2023, 2, 28), (2024, 3, 1), (2024, 12, 29), (2024, 12, 30),
        (2021, 1, 3), (2020, 12, 31), (2026, 1, 1), (2024, 6, 30), (2024, 7, 1), (2000, 2, 29), (1999, 12, 31), (2038, 1, 19),
        (2024, 3, 10), (2024, 3, 31), (2024, 4, 7), (2024, 10, 6), (2024, 10, 27), (2024, 11, 3), (2024, 4, 26), (2024, 9, 8),
    ];
    let dates_ref = &dates;
    let grid_per_date: u64 = if thorough { 800 } else { 200 };
    run_cases(&mut rep, "grid", dates.len() as u64 * grid_per_date, |rep, rng, idx| {
        let (y, m, d) = dates_ref[(idx / grid_per_date) as usize];
        // an instant within +-2 s of an hour boundary of that (UTC) day, or of midnight
        let base = days_from_civil(y, m, d) * 86400 + rng.range(-1, 24) * 3600 + *rng.pick(&[0i64, 0, 1800, 2700]);
        let ts = base + rng.range(-2, 2);
        let nanos = *rng.pick(&[0u32, 0, 1, 999_999_999, 500_000_000]);
        for unit in UNITS {
            let n = *rng.pick(&NS[..]);
            let modulate = rng.chance(1, 2);
            rep.case(&format!("{}|{}|{}|{:?}|{}|{}", zone_ref, ts, nanos, unit, n, modulate), true);
            check_call(rep, zone_ref, table_ref, ts, nanos, unit, n, modulate);
        }
    });

    // (2) every k-th second around each offset change of 2023..2025
    let mut around: Vec<i64> = vec![];
    for y in [2023, 2024, 2025] {
        around.extend(table.changes_in_year(y));
    }
    let step = if thorough { 1 } else { 13 };
    let around_ref = &around;
    let per = (3 * 3600 + 3600) / step;
    run_cases(&mut rep, "transition", around.len() as u64 * per as u64, |rep, rng, idx| {
        let c = around_ref[(idx / per as u64) as usize];
        let ts = c - 2 * 3600 + (idx % per as u64) as i64 * step;
        let unit = UNITS[(idx % 7) as usize];
        let n = *rng.pick(&[1i64, 1, 2, 3, 24]);
        let modulate = rng.chance(1, 2);
        rep.case(&format!("{}|{}|{:?}|{}|{}", zone_ref, ts, unit, n, modulate), true);
        rep.count("calls_within_2h_of_an_offset_change", 1);
        check_call(rep, zone_ref, table_ref, ts, 0, unit, n, modulate);
    });

    // (3) random instants
    run_cases(&mut rep, "random", if thorough { 600_000 } else { 60_000 }, |rep, rng, _| {
        let ts = days_from_civil(1990, 1, 1) * 86400 + rng.range(0, 60 * 366 * 86400);
        let unit = *rng.pick(&UNITS[..]);
        let n = if rng.chance(1, 5) { rng.range(1, 400) } else { *rng.pick(&NS[..]) };
        let modulate = rng.chance(1, 2);
        rep.case(&format!("{}|{}|{:?}|{}|{}", zone_ref, ts, unit, n, modulate), true);
        check_call(rep, zone_ref, table_ref, ts, rng.below(1_000_000_000) as u32, unit, n, modulate);
    });

    // (4) absurdly large multipliers: no panic, still in the future
    let huge: [i64; 8] = [i64::MAX, 1 << 32, (1 << 31) - 1, 1 << 31, 400_000, 5_000_000_000, 1_000_000_000_000, 9_000_000_000_000_000];
    for unit in UNITS {
        for n in huge {
            for modulate in [false, true] {
                rep.case_enumerated(true);
                rep.count("huge_interval_calls", 1);
                let ts = days_from_civil(2024, 5, 17) * 86400 + 37_000;
                let LocalResult::Single(current) = Local.timestamp_opt(ts, 0) else { continue };
                let d = json!({"zone": zone, "current": current.to_rfc3339(), "unit": format!("{:?}", unit), "n": n, "modulate": modulate});
                match trap::catch(|| TimeTrigger::verif_get_next_time(current, interval(unit, n), modulate)) {
                    Err(p) => rep.violation(&format!("C16:panic:get_next_time:huge-interval:{}", panic_class(&p.message)), json!({"call": d, "panic": p.message})),
                    Ok(next) => {
                        if next <= current {
                            rep.violation("C16:huge-interval:schedule-not-in-the-future", json!({"call": d, "next": next.to_rfc3339()}));
                        }
                    }
                }
            }
        }
    }

    // (4c) zones whose offset never changes: boundaries up to the end of year 9999 are exact
    if table.changes.is_empty() {
        let starts: [(i64, i64, i64, i64); 6] = [(2024, 5, 17, 37_000), (9998, 12, 31, 86_370), (9999, 1, 1, 0), (9999, 3, 15, 43_200), (9999, 11, 30, 5), (9000, 6, 1, 1)];
        for (y, m, d, sod) in starts {
            let ts = days_from_civil(y, m, d) * 86400 + sod;
            let LocalResult::Single(current) = Local.timestamp_opt(ts, 0) else { continue };
            let cy = current.year() as i64;
            for unit in [Unit::Month, Unit::Year, Unit::Day, Unit::Week, Unit::Hour] {
                let reach: Vec<i64> = match unit {
                    Unit::Year => vec![1, 2, 9999 - cy, 9998 - cy, 10_000 - cy, 7975],
                    Unit::Month => vec![1, 2, 11, 12, (9999 - cy) * 12, (9999 - cy) * 12 + 11 - (current.month0() as i64), (9999 - cy) * 12 + 12, 13],
                    Unit::Day => vec![1, 30, 365, 100_000],
                    Unit::Week => vec![1, 52, 10_000],
                    _ => vec![1, 24, 1_000_000],
                };
                for n in reach {
                    if n < 1 {
                        continue;
                    }
                    for modulate in [false, true] {
                        let l = expected_next(naive_of(&current), unit, n, modulate);
                        let (ly, ..) = l.ymd_hms();
                        if ly > 9999 {
                            continue; // beyond what the trigger promises to schedule exactly
                        }
                        let Some(want) = local_instant(l) else { continue };
                        rep.case_enumerated(true);
                        rep.count("far_future_boundaries_asserted", 1);
                        let d = json!({"zone": zone, "current": current.to_rfc3339(), "unit": format!("{:?}", unit), "n": n, "modulate": modulate});
                        match trap::catch(|| TimeTrigger::verif_get_next_time(current, interval(unit, n), modulate)) {
                            Err(p) => rep.violation(&format!("C16:panic:get_next_time:far-future:{}", panic_class(&p.message)), json!({"call": d, "panic": p.message})),
                            Ok(next) => {
                                if next != want {
                                    rep.violation(&format!("C16:wrong-boundary:far-future:{:?}", unit), json!({"call": d, "expected": want.to_rfc3339(), "got": next.to_rfc3339()}));
                                }
                            }
                        }
                    }
                }
            }
        }
    }

    // (4b) multipliers spread log-uniformly over the whole i64 range (bands between the obvious thresholds)
    run_cases(&mut rep, "bands", if thorough { 20_000 } else { 2_000 }, |rep, rng, _| {
        let bits = 1 + rng.below(62);
        let n = ((1u64 << bits) | rng.below(1u64 << bits)) as i64;
        let unit = *rng.pick(&UNITS[..]);
        let modulate = rng.chance(1, 2);
        rep.case(&format!("{}|band|{:?}|{}|{}", zone_ref, unit, n, modulate), true);
        rep.count("huge_interval_calls", 1);
        let ts = days_from_civil(2024, 5, 17) * 86400 + rng.range(0, 86400);
        let LocalResult::Single(current) = Local.timestamp_opt(ts, 0) else { return };
        let d = json!({"zone": zone_ref, "current": current.to_rfc3339(), "unit": format!("{:?}", unit), "n": n, "modulate": modulate});
        match trap::catch(|| TimeTrigger::verif_get_next_time(current, interval(unit, n), modulate)) {
            Err(p) => rep.violation(&format!("C16:panic:get_next_time:huge-interval:{}", panic_class(&p.message)), json!({"call": d, "panic": p.message})),
            Ok(next) => {
                if next <= current {
                    rep.violation("C16:huge-interval:schedule-not-in-the-future", json!({"call": d, "next": next.to_rfc3339()}));
                }
            }
        }
    });

    // (4c) absurd max_random_delay values (legal in a config file): constructing and re-arming must not panic
    for delay in [u64::MAX, 1u64 << 63, (1u64 << 63) + 5, 1_000_000_000_000_000_000, 10_000_000_000] {
        for k in 0..24u64 {
            rep.case_enumerated(true);
            rep.count("huge_delay_constructions", 1);
            let ts = days_from_civil(2024, 5, 17) * 86400 + 37_000 + k as i64;
            let LocalResult::Single(now) = Local.timestamp_opt(ts, 0) else { continue };
            hooks::set_clock(Some(now));
            let r = trap::catch(|| TimeTrigger::new(TimeTrigger::verif_config(interval(UNITS[(k % 7) as usize], 1), k % 2 == 0, delay)).verif_next_roll_time());
            hooks::set_clock(None);
            let d = json!({"zone": zone, "max_random_delay": delay, "unit": format!("{:?}", UNITS[(k % 7) as usize]), "now": now.to_rfc3339()});
            match r {
                Err(p) => rep.violation(&format!("C16:panic:TimeTrigger::new:huge-delay:{}", panic_class(&p.message)), json!({"case": d, "panic": p.message})),
                Ok(t) => {
                    if t <= now {
                        rep.violation("C16:huge-delay:schedule-not-in-the-future", json!({"case": d, "scheduled": t.to_rfc3339()}));
                    }
                }
            }
        }
    }

    // (5) histories on the driven clock
    run_cases(&mut rep, "history", if thorough { 2500 } else { 250 }, |rep, rng, idx| history(rep, rng, zone_ref, table_ref, idx));

    let viol: Vec<Value> = rep.violations.iter().map(|v| json!({"signature": v.signature, "detail": v.detail})).collect();
    println!("RESULT {}", json!({
        "zone": zone, "evaluations": rep.evaluations, "distinct": rep.distinct.len() as u64 + rep.distinct_enumerated,
        "counters": rep.counters, "violation_counts": rep.violation_counts, "violations": viol,
        "inconclusive": rep.inconclusive, "samples": rep.samples, "offset_changes_2024": table.changes_in_year(2024).len(),
    }));
    0
}

pub fn run(rep: &mut Report) {
    rep.rule = "per zone (child process with TZ set): TimeTrigger's schedule function called for instants on +-2 s grids around hour / \
        half-hour / midnight boundaries of 24 critical dates (year ends, leap days, ISO week 52/53/1, DST days), every k-th second \
        within 2 h of every UTC-offset change of 2023-2025, and random instants 1990-2050, for all 7 units x n in \
        {1,2,3,5,7,12,24,60,1000, random} x modulate; each result must be strictly in the future and, when the zone's offset is \
        constant between the instant and the boundary, equal to the boundary computed by an independent calendar model; huge \
        multipliers must not panic; histories drive a real rolling appender on a controlled clock and check firing instant, file \
        placement of the firing record and rescheduling; non-trivial = every call; distinct = (zone, instant, unit, n, modulate)".to_owned();
    rep.assume("chrono is trusted for the UTC offset of the zone at an instant; zones: a fixed list incl. POSIX TZ strings (no tzdata needed)");
    rep.assume("'offset constant in between' is decided from an hourly offset table of the zone for 1969-2101, with a one-hour safety margin");
    rep.assume("with modulation, a multiple of n that overshoots the enclosing period is still counted from the start of that period (literal reading of the statement)");
    let only = rep.only.clone();
    if let Some((label, _)) = &only {
        // replay: "zone:<name>" carries the zone
        let _ = label;
    }
    let tier = rep.tier.clone();
    let seed = rep.seed;
    let zones: Vec<&str> = ZONES.to_vec();
    let results: Vec<(String, Result<crate::childproc::ChildOut, String>)> = std::thread::scope(|s| {
        let hs: Vec<_> = zones
            .iter()
            .map(|z| {
                let tier = tier.clone();
                s.spawn(move || {
                    let args = vec!["c16".to_owned(), seed.to_string(), tier];
                    let r = run_child(&args, &[("TZ", Some(z)), ("L4V_JOBS", Some("4"))], std::time::Duration::from_secs(1500));
                    (z.to_string(), r.map_err(|e| e.to_string()))
                })
            })
            .collect();
        hs.into_iter().map(|h| h.join().unwrap()).collect()
    });
    for (zone, r) in results {
        match r {
            Err(e) => rep.inconclusive(&format!("cannot run child for zone {}: {}", zone, e)),
            Ok(o) if o.timed_out => rep.inconclusive(&format!("child for zone {} timed out (watchdog)", zone)),
            Ok(o) => {
                let text = String::from_utf8_lossy(&o.stdout);
                let Some(line) = text.lines().rev().find(|l| l.starts_with("RESULT ")) else {
                    rep.inconclusive(&format!("child for zone {} produced no result (status {:?}): {}", zone, o.status,
                        String::from_utf8_lossy(&o.stderr).chars().take(300).collect::<String>()));
                    continue;
                };
                let v: Value = serde_json::from_str(&line[7..]).unwrap_or(Value::Null);
                rep.evaluations += v["evaluations"].as_u64().unwrap_or(0);
                rep.distinct_enumerated += v["distinct"].as_u64().unwrap_or(0);
                for (k, c) in v["counters"].as_object().cloned().unwrap_or_default() {
                    rep.count(&k, c.as_i64().unwrap_or(0));
                }
                rep.observe("zones_completed", &zone);
                if v["offset_changes_2024"].as_u64().unwrap_or(0) > 0 {
                    rep.observe("zones_with_dst_transitions", &zone);
                }
                for viol in v["violations"].as_array().cloned().unwrap_or_default() {
                    let sig = viol["signature"].as_str().unwrap_or("C16:child").to_owned();
                    rep.violations.push(crate::report::Violation { signature: sig, detail: json!({"zone": zone, "detail": viol["detail"]}) });
                }
                for (k, c) in v["violation_counts"].as_object().cloned().unwrap_or_default() {
                    *rep.violation_counts.entry(k).or_insert(0) += c.as_u64().unwrap_or(0);
                }
                for r in v["inconclusive"].as_array().cloned().unwrap_or_default() {
                    rep.inconclusive(&format!("{}: {}", zone, r.as_str().unwrap_or("")));
                }
                for s in v["samples"].as_array().cloned().unwrap_or_default() {
                    rep.sample(json!({"zone": zone, "sample": s}));
                }
            }
        }
    }
    rep.require(rep.set_size("zones_completed") == ZONES.len(), "not every zone completed");
    rep.require(rep.set_size("zones_with_dst_transitions") >= 4, "fewer than 4 zones with DST transitions were available (tzdata missing?)");
    rep.require(rep.counter("schedule_calls_with_boundary_assertion") > 10_000, "fewer than 10000 boundary assertions");
    rep.require(rep.counter("history_firings") > 100, "fewer than 100 firings in histories");
}
