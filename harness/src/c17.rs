//! C17 — on-start-up trigger rolls at most once, on the first record, if big enough.

use crate::c04::{append_frame, take_panic};
use crate::c05::{Engine, TrigSpec};
use crate::c07::Comp;
use crate::frames::*;
use crate::fsutil::Scratch;
use crate::hooks;
use crate::par::run_cases;
use crate::report::Report;
use crate::rng::Rng;
use crate::rolling::*;
use log4rs::append::Append;
use serde_json::json;
use std::sync::{Arc, Barrier, Mutex};

fn pre_content(size: usize) -> Vec<u8> {
    // old frames when they fit, filler otherwise; never parsed as part of the new stream
    let mut v = vec![];
    let mut s = 0;
    while v.len() + 16 <= size {
        let l = (size - v.len() - 16).min(40);
        let f = frame(800, s, l);
        if v.len() + f.len() > size {
            break;
        }
        v.extend(f);
        s += 1;
    }
    while v.len() < size {
        v.push(b'#');
    }
    v
}

fn window3() -> RollerKind {
    RollerKind::Window { base: 0, count: 3, comp: Comp::None, pattern_rel: "app.{}.log".into() }
}

fn single(rep: &mut Report, rng: &mut Rng, idx: u64) {
    let sc = Scratch::new("c17");
    let min: u64 = *rng.pick(&[0u64, 1, 2, 100, 1024]);
    let append_mode = rng.chance(3, 4);
    let pre: Option<usize> = match rng.below(6) {
        0 => None,
        1 => Some(0),
        2 => Some(min.saturating_sub(1) as usize),
        3 => Some(min as usize),
        4 => Some(min as usize + 1),
        _ => Some(rng.usize_below(3000)),
    };
    let roller = if rng.chance(1, 2) { window3() } else { gen_roller(rng, true) };
    let mut e = Engine::new(sc.path.clone(), append_mode, roller, TrigSpec::OnStartUp(min), *rng.pick(&[0u64, 1, 3]));
    if let Some(sz) = pre {
        let c = pre_content(sz);
        std::fs::write(sc.join(ACTIVE), &c).unwrap();
        if append_mode {
            e.active = Some(c);
        }
    }
    // a third of the appenders are built by the config-file machinery (trigger kind `onstartup`, min_size given or defaulted)
    let from_document = rng.chance(1, 3);
    if from_document {
        e.via_config = Some(Some(append_mode));
        e.enc_kind = 0;
        rep.count("appenders_built_from_config_documents", 1);
    }
    let desc0 = json!({"min_size": min, "pre_existing_size": pre, "open_mode": if append_mode { "append" } else { "truncate" },
        "built_from_a_config_document": from_document});
    let fail = |rep: &mut Report, e: &Engine, sig: &str, what: String| {
        rep.violation(&format!("C17:{}", sig), json!({"case": desc0, "history": e.describe(), "what": what}));
    };
    if let Err((sig, what)) = e.open() {
        fail(rep, &e, &sig, what);
        return;
    }
    // size of the file found at start-up (after truncation in truncate mode)
    let s = std::fs::metadata(sc.join(ACTIVE)).map(|m| m.len()).unwrap_or(0);
    let want_roll = s >= min;
    let startup_bytes = std::fs::read(sc.join(ACTIVE)).unwrap_or_default();
    let n = 1 + rng.usize_below(if idx % 10 == 0 { 200 } else { 25 });
    for seq in 0..n as u32 {
        let before = e.rotations;
        let len = Some(*rng.pick(&[0usize, 1, 10, 90, 1010, 1500]));
        if let Err((sig, what)) = e.append(1, seq, len) {
            if sig == "INCONCLUSIVE" {
                rep.inconclusive(&what);
            } else {
                fail(rep, &e, &sig, what);
            }
            return;
        }
        let rolled_now = e.rotations > before;
        rep.count("appends_observed", 1);
        if seq == 0 {
            if rolled_now != want_roll {
                fail(rep, &e, if want_roll { "no-rotation-on-first-record" } else { "unwanted-rotation-on-first-record" },
                    format!("start-up file has {} bytes, min_size {}: rotation on the first record expected = {}, observed = {}", s, min, want_roll, rolled_now));
                return;
            }
            if rolled_now {
                rep.count("startup_rotations_observed", 1);
                // the pre-existing content became the newest archive, the record starts a fresh file
                if let RollerKind::Window { base, count, .. } = &e.roller {
                    if *count > 0 && e.win.map.get(&(*base as u64)) != Some(&startup_bytes) {
                        fail(rep, &e, "archive-is-not-the-startup-content", "the newest archive does not hold the pre-existing content".into());
                        return;
                    }
                }
            } else {
                rep.count("startup_without_rotation_observed", 1);
            }
        } else if rolled_now {
            fail(rep, &e, "second-rotation", format!("a rotation happened while handling record #{}", seq + 1));
            return;
        }
    }
    rep.case(&format!("{}|{}", desc0, n), true);
    if idx < 3 {
        rep.sample(json!({"case": desc0, "records": n, "expected_rotation_on_first_record": want_roll}));
    }
}

fn concurrent(rep: &mut Report, rng: &mut Rng, idx: u64) {
    let sc = Scratch::new("c17c");
    let min: u64 = *rng.pick(&[0u64, 1, 100]);
    let pre = *rng.pick(&[0usize, 1, 99, 100, 101, 500]);
    let threads = 2 + rng.usize_below(15);
    let per = 5 + rng.usize_below(40);
    let c = pre_content(pre);
    std::fs::write(sc.join(ACTIVE), &c).unwrap();
    let desc = json!({"min_size": min, "pre_existing_size": pre, "threads": threads, "records_per_thread": per});
    let mut e = Engine::new(sc.path.clone(), true, window3(), TrigSpec::OnStartUp(min), 1);
    e.active = Some(c.clone());
    if let Err((sig, what)) = e.open() {
        rep.violation(&format!("C17:{}", sig), json!({"case": desc, "what": what}));
        return;
    }
    let app: Arc<Box<dyn Append>> = Arc::new(e.app.take().unwrap());
    let acks: Arc<Mutex<Vec<Ack>>> = Arc::new(Mutex::new(vec![]));
    let barrier = Arc::new(Barrier::new(threads));
    let problems: Arc<Mutex<Vec<String>>> = Arc::new(Mutex::new(vec![]));
    std::thread::scope(|s| {
        for t in 0..threads {
            let (app, acks, barrier, problems) = (app.clone(), acks.clone(), barrier.clone(), problems.clone());
            let seed = rng.next_u64();
            s.spawn(move || {
                let mut hr = Rng::new(seed);
                hooks::set_local(Some(Box::new(move |_n, _a| {
                    if hr.below(4) == 0 {
                        std::thread::yield_now()
                    }
                })));
                let mut mine = vec![];
                barrier.wait();
                for seq in 0..per as u32 {
                    let a = append_frame(&**app, t as u32 + 1, seq, 20, true);
                    if let Some(p) = take_panic() {
                        problems.lock().unwrap().push(format!("panic: {}", p));
                    }
                    if !a.ok {
                        problems.lock().unwrap().push(format!("append failed: thread {} seq {}", t + 1, seq));
                    }
                    mine.push(a);
                }
                hooks::set_local(None);
                acks.lock().unwrap().extend(mine);
            });
        }
    });
    drop(app);
    for p in problems.lock().unwrap().drain(..) {
        rep.violation("C17:concurrent-append-problem", json!({"case": desc, "what": p}));
    }
    let files = dir_files(&sc.path);
    let want_roll = pre as u64 >= min;
    let archives: Vec<&String> = files.keys().filter(|k| *k != ACTIVE).collect();
    let fail = |rep: &mut Report, sig: &str, what: String| {
        rep.violation(&format!("C17:{}", sig), json!({"case": desc, "what": what,
            "files": files.iter().map(|(k, v)| format!("{} ({} bytes)", k, v.len())).collect::<Vec<_>>()}));
    };
    rep.count("concurrent_runs", 1);
    if want_roll {
        if archives != vec![&"app.0.log".to_owned()] {
            return fail(rep, "concurrent:wrong-number-of-rotations", format!("expected exactly one archive (app.0.log), found {:?}", archives));
        }
        if files["app.0.log"] != c {
            return fail(rep, "concurrent:archive-is-not-the-startup-content", "app.0.log does not hold the pre-existing bytes".into());
        }
        rep.count("startup_rotations_observed", 1);
    } else if !archives.is_empty() {
        return fail(rep, "concurrent:unwanted-rotation", format!("no rotation expected, found {:?}", archives));
    }
    let active = files.get(ACTIVE).cloned().unwrap_or_default();
    let new_part: &[u8] = if want_roll { &active } else if active.starts_with(&c) { &active[c.len()..] } else {
        return fail(rep, "concurrent:startup-content-lost", "the active file no longer starts with the pre-existing bytes".into());
    };
    let acks = acks.lock().unwrap().clone();
    match parse_stream(new_part).map_err(|e| ("S:stream-not-whole-frames".to_owned(), e))
        .and_then(|p| check_stream(&p, &acks, &StreamOpts { allow_oldest_lost: false })) {
        Ok(st) => {
            rep.count("frames_checked", st.frames as i64);
            rep.observe("thread_order_signatures", &st.order_signature.to_string());
            // the very first frame of the stream belongs to whichever thread won; record who
            rep.observe("first_writer", &new_part.iter().take(6).map(|b| *b as char).collect::<String>());
        }
        Err((sig, what)) => fail(rep, &format!("concurrent:{}", sig), what),
    }
    rep.case(&format!("{}|{}", desc, idx), true);
    if idx == 0 {
        rep.sample(json!({"kind": "concurrent first appends", "case": desc}));
    }
}

/// A roller that counts how often a rotation is requested and fails the first `fail_first` requests.
#[derive(Debug)]
struct CountingRoller {
    calls: Arc<Mutex<Vec<u64>>>,
    fail_first: usize,
}

impl log4rs::append::rolling_file::policy::compound::roll::Roll for CountingRoller {
    fn roll(&self, file: &std::path::Path) -> anyhow::Result<()> {
        let mut c = self.calls.lock().unwrap();
        c.push(std::fs::metadata(file).map(|m| m.len()).unwrap_or(u64::MAX));
        if c.len() <= self.fail_first {
            anyhow::bail!("scripted failure of rotation request #{}", c.len());
        }
        drop(c);
        std::fs::remove_file(file).map_err(Into::into)
    }
}

/// The one rotation the trigger may ask for fails (a blocked archive path ...): it is not asked for again.
fn failed_startup_roll(rep: &mut Report, rng: &mut Rng, _idx: u64) {
    use log4rs::append::rolling_file::policy::compound::trigger::onstartup::OnStartUpTrigger;
    let sc = Scratch::new("c17f");
    let min: u64 = *rng.pick(&[0u64, 1, 10]);
    let pre = min as usize + rng.usize_below(50);
    std::fs::write(sc.join(ACTIVE), pre_content(pre)).unwrap();
    let calls = Arc::new(Mutex::new(vec![]));
    let fail_first = *rng.pick(&[0usize, 1, 1, 1]);
    let roller = CountingRoller { calls: calls.clone(), fail_first };
    let app = match build_appender(&sc.path, true, Box::new(ChunkEnc { pieces: 1 }), Box::new(OnStartUpTrigger::new(min)), Box::new(roller)) {
        Ok(a) => a,
        Err(e) => {
            rep.inconclusive(&format!("cannot build a rolling appender: {}", e));
            return;
        }
    };
    // (one history per run is longer than any 16-bit counter)
    let n = if _idx == 0 { 70_000 } else { 2 + rng.usize_below(20) };
    let mut oks = vec![];
    for seq in 0..n as u32 {
        let a = append_frame(&app, 1, seq, if n > 1000 { 1 } else { *rng.pick(&[0usize, 5, 100]) }, true);
        if let Some(p) = take_panic() {
            rep.violation("C17:panic:append", json!({"min_size": min, "pre_existing_size": pre, "panic": p}));
            return;
        }
        oks.push(a.ok);
    }
    let c = calls.lock().unwrap().clone();
    rep.case(&format!("failed-startup|{}|{}|{}|{}", min, pre, fail_first, n), true);
    rep.count("histories_with_a_counting_roller", 1);
    if fail_first > 0 {
        rep.count("startup_rotations_that_failed", 1);
    }
    if c.len() != 1 {
        rep.violation("C17:more-than-one-rotation-requested", json!({"min_size": min, "pre_existing_size": pre, "records": n,
            "the_first_request_failed": fail_first > 0, "rotation_requests_with_the_file_size_at_the_time": c,
            "append_results_ok": if oks.len() > 50 { vec![] } else { oks }}));
    }
}

pub fn run(rep: &mut Report) {
    hooks::install();
    rep.rule = "rolling appender with the real OnStartUpTrigger: min_size in {0,1,2,100,1024} x pre-existing file absent/0/min-1/min/min+1/random \
        x open mode x roller, followed by 1-200 records; the number of rotations during each append is observed through the exact \
        directory model and compared with the statement (exactly one, on the first record, iff the start-up file has >= min_size \
        bytes; its content becomes the newest archive); concurrent variant: 2-16 threads released together by a barrier with the \
        race amplifier, judged after join (one archive at most, equal to the start-up bytes; stream oracle on the new records); \
        non-trivial = every case; distinct = distinct case".to_owned();
    rep.assume("the start-up size is the size of the file right after the appender was built (after truncation in truncate mode)");
    let thorough = rep.tier == "thorough";
    run_cases(rep, "single", if thorough { 30_000 } else { 5_000 }, single);
    run_cases(rep, "failed-startup", if thorough { 3000 } else { 400 }, failed_startup_roll);
    let saved = std::env::var("L4V_JOBS").ok();
    std::env::set_var("L4V_JOBS", "3");
    run_cases(rep, "concurrent", if thorough { 2_000 } else { 200 }, concurrent);
    match saved {
        Some(v) => std::env::set_var("L4V_JOBS", v),
        None => std::env::remove_var("L4V_JOBS"),
    }
    if rep.tier == "thorough" && std::env::var("L4V_NO_MIRI").is_err() && std::env::var("L4V_SUBRUN").is_err() {
        crate::miri::run_miri_seeds(rep, "C17", 32);
        rep.require(rep.counter("miri_seeds_run") >= 32 / 2, "fewer than half of the Miri seeds produced a result");
    }
    rep.require(rep.counter("startup_rotations_observed") > 100, "fewer than 100 start-up rotations observed");
    rep.require(rep.counter("startup_without_rotation_observed") > 50, "too few start-ups below min_size observed");
    rep.require(rep.set_size("first_writer") >= 2, "concurrent first appends were always won by the same thread");
}

/// Tiny concurrent first-append run for Miri.
pub fn miri_scenario(rep: &mut Report, rng: &mut Rng) {
    let sc = Scratch::new("c17m");
    let pre = *rng.pick(&[0usize, 40]);
    let min = 1u64;
    let c = pre_content(pre);
    std::fs::write(sc.join(ACTIVE), &c).unwrap();
    let mut e = Engine::new(sc.path.clone(), true, window3(), TrigSpec::OnStartUp(min), 1);
    e.active = Some(c.clone());
    if let Err((sig, what)) = e.open() {
        rep.violation(&format!("C17:{}", sig), json!({"what": what, "under": "miri"}));
        return;
    }
    let app: Arc<Box<dyn Append>> = Arc::new(e.app.take().unwrap());
    let barrier = Arc::new(Barrier::new(3));
    let acks: Arc<Mutex<Vec<Ack>>> = Arc::new(Mutex::new(vec![]));
    std::thread::scope(|s| {
        for t in 0..3u32 {
            let (app, acks, barrier) = (app.clone(), acks.clone(), barrier.clone());
            s.spawn(move || {
                barrier.wait();
                let mut mine = vec![];
                for seq in 0..2u32 {
                    mine.push(append_frame(&**app, t + 1, seq, 6, true));
                }
                acks.lock().unwrap().extend(mine);
            });
        }
    });
    drop(app);
    let files = dir_files(&sc.path);
    let archives: Vec<&String> = files.keys().filter(|k| *k != ACTIVE).collect();
    let want_roll = pre as u64 >= min;
    if want_roll && (archives != vec![&"app.0.log".to_owned()] || files["app.0.log"] != c) {
        rep.violation("C17:concurrent:wrong-number-of-rotations", json!({"archives": format!("{:?}", archives), "under": "miri"}));
        return;
    }
    if !want_roll && !archives.is_empty() {
        rep.violation("C17:concurrent:unwanted-rotation", json!({"archives": format!("{:?}", archives), "under": "miri"}));
        return;
    }
    let active = files.get(ACTIVE).cloned().unwrap_or_default();
    let new_part: &[u8] = if want_roll { &active } else { &active[c.len().min(active.len())..] };
    let acks = acks.lock().unwrap().clone();
    match parse_stream(new_part).map_err(|e| ("S:stream-not-whole-frames".to_owned(), e))
        .and_then(|p| check_stream(&p, &acks, &StreamOpts { allow_oldest_lost: false })) {
        Ok(st) => {
            rep.count("frames_checked", st.frames as i64);
            rep.observe("thread_order_signatures", &st.order_signature.to_string());
        }
        Err((sig, what)) => rep.violation(&format!("C17:concurrent:{}", sig), json!({"what": what, "under": "miri"})),
    }
}
