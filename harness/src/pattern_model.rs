//! P — pattern reference model: AST, printer (random aliases / escape styles)
//! and an independent renderer. The parser under test is never consulted.

use crate::rng::Rng;
use chrono::{DateTime, Local, Utc};
use log::{Level, Record};
use log4rs::encode::{self, Color, Style};
use std::collections::BTreeMap;
use std::io;

// ------------------------------------------------------------------ AST

#[derive(Clone, Debug, PartialEq)]
pub struct Spec {
    pub fill: Option<char>,
    pub right: Option<bool>,
    pub min: Option<usize>,
    pub max: Option<usize>,
}

#[derive(Clone, Debug, PartialEq)]
pub enum Kind {
    /// `None` format = default (`%+`, full precision); tz: None = default (local)
    Date { fmt: Option<String>, utc: Option<bool> },
    File,
    Level,
    Line,
    Message,
    Module,
    Pid,
    SysTid,
    Newline,
    Target,
    Thread,
    ThreadId,
    Mdc { key: String, default: Option<String> },
    Highlight(Vec<Node>),
    Debug(Vec<Node>),
    Release(Vec<Node>),
    Group(Vec<Node>),
}

#[derive(Clone, Debug, PartialEq)]
pub enum Node {
    Text(String),
    Fmt(Kind, Option<Spec>),
}

pub const SPECIALS: [char; 5] = ['{', '}', '(', ')', '\\'];

// -------------------------------------------------------------- printer

fn escape_text(s: &str, rng: &mut Rng, in_arg: bool, out: &mut String) {
    for c in s.chars() {
        match c {
            '\\' => {
                out.push_str("\\\\");
            }
            ')' if in_arg => out.push_str("\\)"), // "))" would close the argument
            '{' | '}' | '(' | ')' => {
                if rng.chance(1, 2) {
                    out.push(c);
                    out.push(c);
                } else {
                    out.push('\\');
                    out.push(c);
                }
            }
            _ => out.push(c),
        }
    }
}

fn names(kind: &Kind) -> (&'static str, &'static str) {
    match kind {
        Kind::Date { .. } => ("d", "date"),
        Kind::File => ("f", "file"),
        Kind::Level => ("l", "level"),
        Kind::Line => ("L", "line"),
        Kind::Message => ("m", "message"),
        Kind::Module => ("M", "module"),
        Kind::Pid => ("P", "pid"),
        Kind::SysTid => ("i", "tid"),
        Kind::Newline => ("n", "n"),
        Kind::Target => ("t", "target"),
        Kind::Thread => ("T", "thread"),
        Kind::ThreadId => ("I", "thread_id"),
        Kind::Mdc { .. } => ("X", "mdc"),
        Kind::Highlight(_) => ("h", "highlight"),
        Kind::Debug(_) => ("D", "debug"),
        Kind::Release(_) => ("R", "release"),
        Kind::Group(_) => ("", ""),
    }
}

pub fn print_spec(s: &Spec, out: &mut String) {
    out.push(':');
    if let Some(f) = s.fill {
        out.push(f);
        out.push(if s.right == Some(true) { '>' } else { '<' });
    } else if let Some(r) = s.right {
        out.push(if r { '>' } else { '<' });
    }
    if let Some(m) = s.min {
        out.push_str(&m.to_string());
    }
    if let Some(m) = s.max {
        out.push('.');
        out.push_str(&m.to_string());
    }
}

pub fn print(nodes: &[Node], rng: &mut Rng, in_arg: bool) -> String {
    let mut out = String::new();
    for n in nodes {
        match n {
            Node::Text(t) => escape_text(t, rng, in_arg, &mut out),
            Node::Fmt(kind, spec) => {
                out.push('{');
                let (a, b) = names(kind);
                out.push_str(if rng.chance(1, 2) { a } else { b });
                match kind {
                    Kind::Date { fmt, utc } => {
                        if let Some(f) = fmt {
                            out.push('(');
                            escape_text(f, rng, true, &mut out);
                            out.push(')');
                            if let Some(u) = utc {
                                out.push_str(if *u { "(utc)" } else { "(local)" });
                            }
                        }
                    }
                    Kind::Mdc { key, default } => {
                        out.push('(');
                        escape_text(key, rng, true, &mut out);
                        out.push(')');
                        if let Some(d) = default {
                            out.push('(');
                            escape_text(d, rng, true, &mut out);
                            out.push(')');
                        }
                    }
                    Kind::Highlight(c) | Kind::Debug(c) | Kind::Release(c) | Kind::Group(c) => {
                        out.push('(');
                        out.push_str(&print(c, rng, true));
                        out.push(')');
                    }
                    _ => {}
                }
                if let Some(s) = spec {
                    print_spec(s, &mut out);
                }
                out.push('}');
            }
        }
    }
    out
}

// ------------------------------------------------------------- renderer

#[derive(Clone, Debug, PartialEq)]
pub enum Ev {
    Ch(char),
    Style(StyleEv),
    /// a full-precision timestamp whose text is only known to lie in a bracket
    DateHole { utc: bool },
}

#[derive(Clone, Debug, PartialEq, Eq)]
pub struct StyleEv {
    pub text: Option<u8>,
    pub background: Option<u8>,
    pub intense: Option<bool>,
}

fn color_no(c: Color) -> u8 {
    match c {
        Color::Black => 0,
        Color::Red => 1,
        Color::Green => 2,
        Color::Yellow => 3,
        Color::Blue => 4,
        Color::Magenta => 5,
        Color::Cyan => 6,
        Color::White => 7,
    }
}

pub fn style_ev(s: &Style) -> StyleEv {
    StyleEv {
        text: s.text.map(color_no),
        background: s.background.map(color_no),
        intense: s.intense,
    }
}

/// Everything the renderer needs to know about the record and its environment.
#[derive(Clone, Debug)]
pub struct RecCtx {
    pub level: Level,
    pub message: String,
    pub target: String,
    pub module: Option<String>,
    pub file: Option<String>,
    pub line: Option<u32>,
    pub thread: Option<String>,
    pub pid: u32,
    pub tid: usize,
    pub mdc: BTreeMap<String, String>,
    pub debug_build: bool,
}

fn chars(s: &str) -> Vec<Ev> {
    s.chars().map(Ev::Ch).collect()
}

fn apply_spec(mut evs: Vec<Ev>, spec: &Option<Spec>) -> Vec<Ev> {
    let Some(s) = spec else { return evs };
    if let Some(max) = s.max {
        // cut to the first `max` characters; style events pass through
        let mut seen = 0;
        evs.retain(|e| match e {
            Ev::Ch(_) | Ev::DateHole { .. } => {
                seen += 1;
                seen <= max
            }
            Ev::Style(_) => true,
        });
    }
    if let Some(min) = s.min {
        let n = evs.iter().filter(|e| matches!(e, Ev::Ch(_))).count();
        if n < min {
            let fill = s.fill.unwrap_or(' ');
            let pad: Vec<Ev> = std::iter::repeat(Ev::Ch(fill)).take(min - n).collect();
            if s.right == Some(true) {
                let mut v = pad;
                v.extend(evs);
                evs = v;
            } else {
                evs.extend(pad);
            }
        }
    }
    evs
}

pub fn render(nodes: &[Node], r: &RecCtx, now_local: &DateTime<Local>, now_utc: &DateTime<Utc>) -> Vec<Ev> {
    let mut out = vec![];
    for n in nodes {
        match n {
            Node::Text(t) => out.extend(chars(t)),
            Node::Fmt(kind, spec) => {
                let v: Vec<Ev> = match kind {
                    Kind::Date { fmt, utc } => {
                        let u = utc.unwrap_or(false);
                        match fmt {
                            None => vec![Ev::DateHole { utc: u }],
                            Some(f) => {
                                let s = if u {
                                    now_utc.format(f).to_string()
                                } else {
                                    now_local.format(f).to_string()
                                };
                                chars(&s)
                            }
                        }
                    }
                    Kind::File => chars(r.file.as_deref().unwrap_or("???")),
                    Kind::Level => chars(match r.level {
                        Level::Error => "ERROR",
                        Level::Warn => "WARN",
                        Level::Info => "INFO",
                        Level::Debug => "DEBUG",
                        Level::Trace => "TRACE",
                    }),
                    Kind::Line => match r.line {
                        Some(l) => chars(&l.to_string()),
                        None => chars("???"),
                    },
                    Kind::Message => chars(&r.message),
                    Kind::Module => chars(r.module.as_deref().unwrap_or("???")),
                    Kind::Pid => chars(&r.pid.to_string()),
                    Kind::SysTid | Kind::ThreadId => chars(&r.tid.to_string()),
                    Kind::Newline => chars("\n"),
                    Kind::Target => chars(&r.target),
                    Kind::Thread => chars(r.thread.as_deref().unwrap_or("unnamed")),
                    Kind::Mdc { key, default } => match r.mdc.get(key) {
                        Some(v) => chars(v),
                        None => chars(default.as_deref().unwrap_or("")),
                    },
                    Kind::Group(c) => render(c, r, now_local, now_utc),
                    Kind::Debug(c) => {
                        if r.debug_build {
                            render(c, r, now_local, now_utc)
                        } else {
                            vec![]
                        }
                    }
                    Kind::Release(c) => {
                        if !r.debug_build {
                            render(c, r, now_local, now_utc)
                        } else {
                            vec![]
                        }
                    }
                    Kind::Highlight(c) => {
                        let style = match r.level {
                            Level::Error => Some(StyleEv { text: Some(1), background: None, intense: Some(true) }),
                            Level::Warn => Some(StyleEv { text: Some(3), background: None, intense: None }),
                            Level::Info => Some(StyleEv { text: Some(2), background: None, intense: None }),
                            Level::Trace => Some(StyleEv { text: Some(6), background: None, intense: None }),
                            Level::Debug => None,
                        };
                        let mut v = vec![];
                        if let Some(s) = &style {
                            v.push(Ev::Style(s.clone()));
                        }
                        v.extend(render(c, r, now_local, now_utc));
                        if style.is_some() {
                            v.push(Ev::Style(StyleEv { text: None, background: None, intense: None }));
                        }
                        v
                    }
                };
                out.extend(apply_spec(v, spec));
            }
        }
    }
    out
}

pub fn text_of(evs: &[Ev]) -> String {
    evs.iter()
        .filter_map(|e| match e {
            Ev::Ch(c) => Some(*c),
            Ev::DateHole { .. } => Some('\u{FFFC}'),
            _ => None,
        })
        .collect()
}

pub fn has_hole(evs: &[Ev]) -> bool {
    evs.iter().any(|e| matches!(e, Ev::DateHole { .. }))
}

// -------------------------------------------------------- capture writer

/// Captures bytes and style calls; optionally accepts only a random prefix
/// of every `write` (short writes, possibly in the middle of a code point)
/// and optionally fails after a byte budget.
pub struct CapW {
    pub bytes: Vec<u8>,
    /// (byte offset, style)
    pub styles: Vec<(usize, StyleEv)>,
    pub short: Option<Rng>,
    pub budget: Option<usize>,
    pub budget_hit: bool,
    pub write_calls: usize,
    /// with `short`: every few calls fail with `ErrorKind::Interrupted` before anything is taken
    pub interrupts: bool,
    pub interrupted: usize,
}

impl CapW {
    pub fn new() -> CapW {
        CapW { bytes: vec![], styles: vec![], short: None, budget: None, budget_hit: false, write_calls: 0, interrupts: false, interrupted: 0 }
    }
    pub fn short(seed: u64) -> CapW {
        let mut w = CapW::new();
        w.short = Some(Rng::new(seed));
        w
    }
    /// The captured stream as model events (requires valid UTF-8).
    pub fn events(&self) -> Result<Vec<Ev>, std::string::FromUtf8Error> {
        let s = String::from_utf8(self.bytes.clone())?;
        let mut out = vec![];
        let mut si = 0;
        let mut off = 0;
        for c in s.chars() {
            while si < self.styles.len() && self.styles[si].0 <= off {
                out.push(Ev::Style(self.styles[si].1.clone()));
                si += 1;
            }
            out.push(Ev::Ch(c));
            off += c.len_utf8();
        }
        while si < self.styles.len() {
            out.push(Ev::Style(self.styles[si].1.clone()));
            si += 1;
        }
        Ok(out)
    }
}

impl Default for CapW {
    fn default() -> Self {
        CapW::new()
    }
}

impl io::Write for CapW {
    fn write(&mut self, buf: &[u8]) -> io::Result<usize> {
        self.write_calls += 1;
        if buf.is_empty() {
            return Ok(0);
        }
        if let Some(b) = self.budget {
            if self.bytes.len() + buf.len() > b {
                self.budget_hit = true;
                return Err(io::Error::new(io::ErrorKind::Other, "l4v sink budget exceeded"));
            }
        }
        if self.interrupts {
            if let Some(r) = &mut self.short {
                if r.chance(1, 4) {
                    self.interrupted += 1;
                    return Err(io::Error::new(io::ErrorKind::Interrupted, "l4v sink: EINTR"));
                }
            }
        }
        let n = match &mut self.short {
            Some(r) => 1 + r.usize_below(buf.len().min(4)),
            None => buf.len(),
        };
        self.bytes.extend_from_slice(&buf[..n]);
        Ok(n)
    }
    fn flush(&mut self) -> io::Result<()> {
        Ok(())
    }
}

impl encode::Write for CapW {
    fn set_style(&mut self, style: &Style) -> io::Result<()> {
        self.styles.push((self.bytes.len(), style_ev(style)));
        Ok(())
    }
}

// ---------------------------------------------------- record construction

/// A `Display` that emits its text in several `write_str` pieces.
pub struct Pieces<'a>(pub &'a [String]);

impl<'a> std::fmt::Display for Pieces<'a> {
    fn fmt(&self, f: &mut std::fmt::Formatter<'_>) -> std::fmt::Result {
        for p in self.0 {
            f.write_str(p)?;
        }
        Ok(())
    }
}

/// Splits `s` at random character boundaries into 1..=4 pieces.
pub fn split_pieces(s: &str, rng: &mut Rng) -> Vec<String> {
    let cs: Vec<char> = s.chars().collect();
    let k = 1 + rng.usize_below(4);
    let mut cuts: Vec<usize> = (0..k - 1).map(|_| rng.usize_below(cs.len() + 1)).collect();
    cuts.sort();
    let mut out = vec![];
    let mut prev = 0;
    for c in cuts {
        out.push(cs[prev..c].iter().collect());
        prev = c;
    }
    out.push(cs[prev..].iter().collect());
    out
}

/// Messages that are compile-time literals: `record.args().as_str()` is `Some` for them, which is what
/// `log::info!("literal")` produces (a fast path an encoder might treat specially).
pub const LITERALS: [&str; 8] = [
    "a literal message",
    "",
    "naïve café → 𝄞",
    "xxxxxxxxxxxxxxxxxxxxxxxxxxxxxxxxxxxxxxxxxxxxxxxxxxxxxxxxxxxxxxxxxxxxxxxxxxxxxxxxxxxxxxxxxxxxxxxxxxxxxxxxxxxxxxxxxxxxxxxxxxxxxxxxxxxxxxxxxxxxxxxxxxxxxxxxxxxxxxxxxxxxxxxxxxxxxxxxxxxxxxxxxxxxxxxxxxxxxxxxxxxxxxxxxxxxxxxxxxxxxxxxxxxxxxxxxxxxxxxxxxxxxxxxxxxxxxxxxxxxxxxxxxxxxxxxxxxxxxxxxxxxxxxxxxxxxxxxxxxxxxxxxxxxxxxxxxxxxxxxxxxxxxxxxxxxxxxxxxxx end",
    "{braces} (parens) \\ backslash",
    "line one\nline two",
    "héllo wörld",
    "日本語のメッセージです",
];

/// Builds the `log::Record` for `ctx` and hands it to `f`.
pub fn with_record<T>(ctx: &RecCtx, pieces: &[String], f: impl FnOnce(&Record) -> T) -> T {
    macro_rules! lit {
        ($i:expr) => {
            return f(&Record::builder()
                .level(ctx.level)
                .target(&ctx.target)
                .module_path(ctx.module.as_deref())
                .file(ctx.file.as_deref())
                .line(ctx.line)
                .args(format_args!($i))
                .build())
        };
    }
    // a single piece equal to one of the literals is passed as a real literal
    if pieces.len() == 1 {
        match LITERALS.iter().position(|l| *l == pieces[0]) {
            Some(0) => lit!("a literal message"),
            Some(1) => lit!(""),
            Some(2) => lit!("naïve café → 𝄞"),
            Some(3) => lit!("xxxxxxxxxxxxxxxxxxxxxxxxxxxxxxxxxxxxxxxxxxxxxxxxxxxxxxxxxxxxxxxxxxxxxxxxxxxxxxxxxxxxxxxxxxxxxxxxxxxxxxxxxxxxxxxxxxxxxxxxxxxxxxxxxxxxxxxxxxxxxxxxxxxxxxxxxxxxxxxxxxxxxxxxxxxxxxxxxxxxxxxxxxxxxxxxxxxxxxxxxxxxxxxxxxxxxxxxxxxxxxxxxxxxxxxxxxxxxxxxxxxxxxxxxxxxxxxxxxxxxxxxxxxxxxxxxxxxxxxxxxxxxxxxxxxxxxxxxxxxxxxxxxxxxxxxxxxxxxxxxxxxxxxxxxxxxxxxxxxx end"),
            Some(4) => lit!("{{braces}} (parens) \\ backslash"),
            Some(5) => lit!("line one\nline two"),
            Some(6) => lit!("héllo wörld"),
            Some(7) => lit!("日本語のメッセージです"),
            _ => {}
        }
    }
    let p = Pieces(pieces);
    f(&Record::builder()
        .level(ctx.level)
        .target(&ctx.target)
        .module_path(ctx.module.as_deref())
        .file(ctx.file.as_deref())
        .line(ctx.line)
        .args(format_args!("{}", p))
        .build())
}

/// A message whose `Display` implementation writes part of its text and then panics (a bug in somebody's
/// `Display`; callers that catch the panic go on logging on the same thread).
pub struct PanickingMsg;

impl std::fmt::Display for PanickingMsg {
    fn fmt(&self, f: &mut std::fmt::Formatter<'_>) -> std::fmt::Result {
        f.write_str("HALF-OF-A-MESSAGE-THAT-MUST-NOT-SHOW-UP-LATER")?;
        panic!("l4v: scripted panic inside Display");
    }
}

/// Encodes one record whose message panics half-way, swallowing the panic (quietly).
pub fn encode_a_record_that_panics(enc: &dyn encode::Encode, ctx: &RecCtx) {
    let mut w = CapW::new();
    let _ = crate::trap::catch(|| with_record_display(ctx, &PanickingMsg, |rec| enc.encode(&mut w, rec)));
}

/// A message whose `Display` implementation itself encodes another record through the same encoder (into
/// its own buffer) before it writes its text - what happens when formatting an argument logs something.
pub struct NestingMsg<'a> {
    pub enc: &'a dyn encode::Encode,
    pub inner: &'a RecCtx,
    pub text: &'a str,
    /// bytes of the nested record, or the error of the nested encode
    pub inner_out: std::cell::RefCell<Option<Result<Vec<u8>, String>>>,
}

impl<'a> std::fmt::Display for NestingMsg<'a> {
    fn fmt(&self, f: &mut std::fmt::Formatter<'_>) -> std::fmt::Result {
        let mut w = CapW::new();
        let pieces = vec![self.inner.message.clone()];
        let r = with_record(self.inner, &pieces, |rec| self.enc.encode(&mut w, rec));
        *self.inner_out.borrow_mut() = Some(match r {
            Ok(()) => Ok(w.bytes),
            Err(e) => Err(e.to_string()),
        });
        f.write_str(self.text)
    }
}

/// Like `with_record`, with an arbitrary `Display` as the message.
pub fn with_record_display<T>(ctx: &RecCtx, d: &dyn std::fmt::Display, f: impl FnOnce(&Record) -> T) -> T {
    f(&Record::builder()
        .level(ctx.level)
        .target(&ctx.target)
        .module_path(ctx.module.as_deref())
        .file(ctx.file.as_deref())
        .line(ctx.line)
        .args(format_args!("{}", d))
        .build())
}

pub fn has_date(nodes: &[Node]) -> bool {
    nodes.iter().any(|n| match n {
        Node::Fmt(Kind::Date { .. }, _) => true,
        Node::Fmt(Kind::Group(c) | Kind::Highlight(c) | Kind::Debug(c) | Kind::Release(c), _) => has_date(c),
        _ => false,
    })
}

// ------------------------------------------------------------ generators

pub const TEXT_POOL: [&str; 24] = [
    "", "a", "hello", " ", "é", "日本", "𝄞", "x̂", "{", "}", "(", ")", "\\", "{}", "))", "((", "\\\\(", ":", ".", "<", ">",
    "%", "naïve café", "→←",
];

pub fn gen_text(rng: &mut Rng, max_parts: usize) -> String {
    let n = rng.usize_below(max_parts + 1);
    let mut s = String::new();
    for _ in 0..n {
        s.push_str(*rng.pick(&TEXT_POOL[..]));
    }
    s
}

pub const FILLS: [char; 12] = [' ', '~', '0', 'é', '€', '𝄞', '}', ':', '<', '>', '{', '.'];
pub const WIDTHS: [usize; 8] = [0, 1, 2, 3, 5, 8, 13, 40];

pub fn gen_spec(rng: &mut Rng) -> Spec {
    loop {
        let min = if rng.chance(2, 3) { Some(*rng.pick(&WIDTHS)) } else { None };
        let max = if rng.chance(1, 2) { Some(*rng.pick(&WIDTHS)) } else { None };
        if let (Some(a), Some(b)) = (min, max) {
            if a > b {
                continue; // the property requires m <= M
            }
        }
        let right = match rng.below(3) {
            0 => None,
            1 => Some(false),
            _ => Some(true),
        };
        let fill = if rng.chance(1, 2) { Some(*rng.pick(&FILLS)) } else { None };
        if min.is_none() && max.is_none() && right.is_none() && fill.is_none() {
            continue; // "{m:}" followed by '<' or '>' is ambiguous in the grammar; never generated
        }
        return Spec { fill, right, min, max };
    }
}

/// Date formats whose rendering only changes once per second at most.
pub const DATE_FORMATS: [&str; 12] = [
    "%Y-%m-%d", "%H:%M", "%Y", "%j", "%Y-%m-%dT%H:%M:%S%z", "%a %b %e", "%Z", "(%Y)", "%%", "%H{%M}", "", "%d/%m/%y \\ %:z",
];

pub struct GenOpts {
    pub max_depth: usize,
    pub allow_default_date: bool,
    pub allow_profile_groups: bool,
    pub spec_prob: (u64, u64),
    pub mdc_keys: Vec<String>,
}

pub fn gen_nodes(rng: &mut Rng, o: &GenOpts, depth: usize, hole_budget: &mut u32, enclosing_spec: bool) -> Vec<Node> {
    let n = 1 + rng.usize_below(if depth == 0 { 6 } else { 3 });
    let mut out: Vec<Node> = vec![];
    for _ in 0..n {
        if rng.chance(1, 3) {
            let t = gen_text(rng, 3);
            if !t.is_empty() {
                out.push(Node::Text(t));
            }
            continue;
        }
        let spec = if rng.chance(o.spec_prob.0, o.spec_prob.1) { Some(gen_spec(rng)) } else { None };
        let has_spec = spec.is_some() || enclosing_spec;
        let kind = match rng.below(if depth < o.max_depth { 19 } else { 15 }) {
            0 => Kind::File,
            1 => Kind::Level,
            2 => Kind::Line,
            3 | 4 => Kind::Message,
            5 => Kind::Module,
            6 => Kind::Pid,
            7 => Kind::SysTid,
            8 => Kind::Newline,
            9 => Kind::Target,
            10 => Kind::Thread,
            11 => Kind::ThreadId,
            12 | 13 => {
                let key = if rng.chance(2, 3) && !o.mdc_keys.is_empty() {
                    rng.pick(&o.mdc_keys).clone()
                } else {
                    let k = gen_text(rng, 2);
                    if k.is_empty() { "nokey".to_owned() } else { k }
                };
                let default = if rng.chance(1, 2) {
                    let d = gen_text(rng, 3);
                    if d.is_empty() { None } else { Some(d) }
                } else {
                    None
                };
                Kind::Mdc { key, default }
            }
            14 => {
                if o.allow_default_date && !has_spec && *hole_budget > 0 && rng.chance(1, 3) {
                    *hole_budget -= 1;
                    Kind::Date { fmt: None, utc: None }
                } else {
                    let f = (*rng.pick(&DATE_FORMATS)).to_owned();
                    let utc = match rng.below(3) {
                        0 => None,
                        1 => Some(true),
                        _ => Some(false),
                    };
                    Kind::Date { fmt: Some(f), utc }
                }
            }
            15 => Kind::Group(gen_nodes(rng, o, depth + 1, hole_budget, has_spec)),
            16 => Kind::Highlight(gen_nodes(rng, o, depth + 1, hole_budget, has_spec)),
            17 if o.allow_profile_groups => Kind::Debug(gen_nodes(rng, o, depth + 1, hole_budget, has_spec)),
            18 if o.allow_profile_groups => Kind::Release(gen_nodes(rng, o, depth + 1, hole_budget, has_spec)),
            _ => Kind::Group(gen_nodes(rng, o, depth + 1, hole_budget, has_spec)),
        };
        out.push(Node::Fmt(kind, spec));
    }
    out
}

pub fn gen_ctx(rng: &mut Rng, mdc_keys: &[String]) -> RecCtx {
    let opt = |rng: &mut Rng| -> Option<String> {
        if rng.chance(1, 3) { None } else { Some(gen_text(rng, 3)) }
    };
    let mut mdc = BTreeMap::new();
    for k in mdc_keys {
        if rng.chance(1, 2) {
            mdc.insert(k.clone(), gen_text(rng, 3));
        }
    }
    let mut message = gen_text(rng, 5);
    if rng.chance(1, 10) {
        // a compile-time literal (see `with_record`)
        message = (*rng.pick(&LITERALS[..])).to_owned();
    } else if rng.chance(1, 25) {
        // long text: crosses the buffers of any intermediate writer
        let len = *rng.pick(&[255usize, 256, 257, 1023, 1024, 1025, 5000]);
        let c = *rng.pick(&['m', 'é', '𝄞']);
        message.extend(std::iter::repeat(c).take(len));
    }
    RecCtx {
        level: *rng.pick(&crate::routing::LEVELS),
        message,
        target: gen_text(rng, 3),
        module: opt(rng),
        file: opt(rng),
        line: if rng.chance(1, 3) { None } else { Some(rng.below(100_000) as u32) },
        thread: std::thread::current().name().map(|s| s.to_owned()),
        pid: std::process::id(),
        tid: thread_id::get(),
        mdc,
        debug_build: cfg!(debug_assertions),
    }
}

/// Compares the captured output with the expectation, allowing for the
/// bracketed date hole. Returns `None` when they agree.
pub fn compare(
    expected: &[Ev],
    got: &[Ev],
    t0: &DateTime<Utc>,
    t1: &DateTime<Utc>,
) -> Option<String> {
    if !has_hole(expected) {
        if expected == got {
            return None;
        }
        return Some("output differs".to_owned());
    }
    // split around the (single) hole
    let pos = expected.iter().position(|e| matches!(e, Ev::DateHole { .. })).unwrap();
    let utc = matches!(expected[pos], Ev::DateHole { utc: true });
    let pre = &expected[..pos];
    let post = &expected[pos + 1..];
    if got.len() < pre.len() + post.len() || &got[..pre.len()] != pre || &got[got.len() - post.len()..] != post {
        return Some("output differs around the default-format date".to_owned());
    }
    let mid: String = got[pre.len()..got.len() - post.len()]
        .iter()
        .filter_map(|e| if let Ev::Ch(c) = e { Some(*c) } else { None })
        .collect();
    if got[pre.len()..got.len() - post.len()].iter().any(|e| !matches!(e, Ev::Ch(_))) {
        return Some("style event inside the date text".to_owned());
    }
    match DateTime::parse_from_rfc3339(&mid) {
        Err(_) => Some(format!("default date `{}` is not RFC 3339 / ISO 8601", mid)),
        Ok(d) => {
            let du = d.with_timezone(&Utc);
            if du < *t0 || du > *t1 {
                return Some(format!("default date `{}` outside the call bracket", mid));
            }
            let want_off = if utc { 0 } else { Local::now().offset().local_minus_utc() };
            if d.offset().local_minus_utc() != want_off {
                return Some(format!("default date `{}` has the wrong zone offset", mid));
            }
            None
        }
    }
}
