//! Deterministic PRNG (xoshiro256**, seeded through splitmix64).

#[derive(Clone, Debug)]
pub struct Rng {
    s: [u64; 4],
}

pub fn splitmix(x: &mut u64) -> u64 {
    *x = x.wrapping_add(0x9E37_79B9_7F4A_7C15);
    let mut z = *x;
    z = (z ^ (z >> 30)).wrapping_mul(0xBF58_476D_1CE4_E5B9);
    z = (z ^ (z >> 27)).wrapping_mul(0x94D0_49BB_1331_11EB);
    z ^ (z >> 31)
}

/// Derives an independent sub-seed from a seed and a label.
pub fn subseed(seed: u64, label: &str, idx: u64) -> u64 {
    let mut h = seed ^ 0xA076_1D64_78BD_642F;
    for b in label.bytes() {
        h = (h ^ b as u64).wrapping_mul(0x1000_0000_01B3);
    }
    h ^= idx.wrapping_mul(0xE703_7ED1_A0B4_28DB);
    let mut x = h;
    splitmix(&mut x)
}

impl Rng {
    pub fn new(seed: u64) -> Rng {
        let mut x = seed;
        let s = [
            splitmix(&mut x),
            splitmix(&mut x),
            splitmix(&mut x),
            splitmix(&mut x),
        ];
        Rng { s }
    }

    pub fn next_u64(&mut self) -> u64 {
        let r = self.s[1].wrapping_mul(5).rotate_left(7).wrapping_mul(9);
        let t = self.s[1] << 17;
        self.s[2] ^= self.s[0];
        self.s[3] ^= self.s[1];
        self.s[1] ^= self.s[2];
        self.s[0] ^= self.s[3];
        self.s[2] ^= t;
        self.s[3] = self.s[3].rotate_left(45);
        r
    }

    /// Uniform in `0..n` (`n > 0`).
    pub fn below(&mut self, n: u64) -> u64 {
        debug_assert!(n > 0);
        // multiply-shift; bias is irrelevant here
        ((self.next_u64() as u128 * n as u128) >> 64) as u64
    }

    pub fn usize_below(&mut self, n: usize) -> usize {
        self.below(n as u64) as usize
    }

    /// Uniform in `lo..=hi`.
    pub fn range(&mut self, lo: i64, hi: i64) -> i64 {
        debug_assert!(lo <= hi);
        lo + self.below((hi - lo) as u64 + 1) as i64
    }

    pub fn chance(&mut self, num: u64, den: u64) -> bool {
        self.below(den) < num
    }

    pub fn pick<'a, T>(&mut self, xs: &'a [T]) -> &'a T {
        &xs[self.usize_below(xs.len())]
    }

    pub fn shuffle<T>(&mut self, xs: &mut [T]) {
        for i in (1..xs.len()).rev() {
            let j = self.usize_below(i + 1);
            xs.swap(i, j);
        }
    }
}
