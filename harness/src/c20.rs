//! C20 — size and interval literals parse exactly; bad or overflowing ones are rejected.

use crate::fsutil::Scratch;
use crate::par::run_cases;
use crate::report::Report;
use crate::rng::Rng;
use crate::trap;
use log4rs::append::rolling_file::policy::compound::trigger::size::SizeTriggerConfig;
use log4rs::append::rolling_file::policy::compound::trigger::time::{TimeTriggerConfig, TimeTriggerInterval};
use log4rs::append::Append;
use serde_json::json;

const SIZE_UNITS: [(&str, u32); 9] = [("b", 0), ("kb", 1), ("kib", 1), ("mb", 2), ("mib", 2), ("gb", 3), ("gib", 3), ("tb", 4), ("tib", 4)];
const TIME_UNITS: [(&str, u8); 14] = [
    ("second", 0), ("seconds", 0), ("minute", 1), ("minutes", 1), ("hour", 2), ("hours", 2), ("day", 3), ("days", 3),
    ("week", 4), ("weeks", 4), ("month", 5), ("months", 5), ("year", 6), ("years", 6),
];
const JUNK_UNITS: [&str; 30] = [
    // characters that only case-fold to ASCII letters (KELVIN SIGN, LONG S, dotted capital I)
    "\u{212A}b", "wee\u{212A}", "wee\u{212A}s", "\u{17F}econds", "m\u{130}nutes", "t\u{130}b", "\u{212A}ib", "day\u{17F}","x", "k", "kbb", "kbs", "bytes", "byte", "kb.", "k b", "m", "mbb", "pb", "secondss", "sec", "s", "min",
    "minuts", "hourss", "dayz", "mon", "yr", "second s", "é"];

/// A unit that is not one: from the catalogue, or long text whose byte offsets fall inside characters.
fn junk_unit(rng: &mut Rng) -> String {
    if rng.chance(3, 4) {
        return mixed_case(*rng.pick(&JUNK_UNITS[..]), rng);
    }
    let c = *rng.pick(&['é', 'м', 'メ', '・', '𝄞']); // (not U+3000: that is white space, which may separate number and unit)
    let mut s = "x".repeat(rng.usize_below(4));
    s.extend(std::iter::repeat(c).take(3 + rng.usize_below(40)));
    s.push_str(*rng.pick(&["", "tb", "kb", "seconds", "s", " b"]));
    s
}

/// A valid literal and a junk literal that differs from it only by white space *inside* the number or the unit.
fn twin_with_inner_space(rng: &mut Rng, units: &[&str]) -> (String, String) {
    let number = (10 + rng.below(990)).to_string();
    let unit = *rng.pick(units);
    let twin = format!("{} {}", number, unit);
    let junk = if rng.chance(1, 2) || unit.len() < 2 {
        let cut = 1 + rng.usize_below(number.len() - 1);
        format!("{} {} {}", &number[..cut], &number[cut..], unit)
    } else {
        let cut = 1 + rng.usize_below(unit.len() - 1);
        format!("{} {} {}", number, &unit[..cut], &unit[cut..])
    };
    (twin, junk)
}

fn twins(rep: &mut Report, rng: &mut Rng, _idx: u64) {
    // parse the well-formed twin first, then the junk, on the same thread
    let (twin, junk) = twin_with_inner_space(rng, &["seconds", "minutes", "hours", "days", "weeks", "months", "years"]);
    let a = serde_json::from_str::<TimeTriggerInterval>(&serde_json::to_string(&twin).unwrap());
    let b = trap::catch(|| serde_json::from_str::<TimeTriggerInterval>(&serde_json::to_string(&junk).unwrap()).map(|v| format!("{:?}", v)));
    rep.case(&format!("twin|{}|{}", twin, junk), true);
    rep.count("junk_literals_parsed_right_after_their_valid_twin", 1);
    if a.is_err() {
        rep.violation("C20:interval:good-literal-rejected", json!({"literal": twin}));
    }
    if let Ok(Ok(v)) = b {
        rep.violation("C20:interval:bad-literal-accepted:after-its-valid-twin", json!({"literal": junk, "parsed_just_before": twin, "got": v}));
    }
    let (twin, junk) = twin_with_inner_space(rng, &["kb", "mb", "gb", "kib", "mib", "b"]);
    let a = serde_json::from_str::<SizeTriggerConfig>(&format!("{{\"limit\": {}}}", serde_json::to_string(&twin).unwrap()));
    let b = trap::catch(|| serde_json::from_str::<SizeTriggerConfig>(&format!("{{\"limit\": {}}}", serde_json::to_string(&junk).unwrap())).map(|v| format!("{:?}", v)));
    if a.is_err() {
        rep.violation("C20:size:good-literal-rejected", json!({"literal": twin}));
    }
    if let Ok(Ok(v)) = b {
        rep.violation("C20:size:bad-literal-accepted:after-its-valid-twin", json!({"literal": junk, "parsed_just_before": twin, "got": v}));
    }
}

/// Every string one edit away from a valid unit (a character dropped, doubled, two neighbours swapped, every proper
/// prefix and suffix) that is not itself a unit of either parser.
fn unit_neighbours() -> Vec<String> {
    let valid: Vec<String> = SIZE_UNITS.iter().map(|u| u.0.to_owned()).chain(TIME_UNITS.iter().map(|u| u.0.to_owned())).collect();
    let mut out: Vec<String> = vec![];
    for u in &valid {
        let c: Vec<char> = u.chars().collect();
        for i in 0..c.len() {
            let mut d = c.clone();
            d.remove(i);
            out.push(d.iter().collect());
            let mut d = c.clone();
            d.insert(i, c[i]);
            out.push(d.iter().collect());
            if i + 1 < c.len() {
                let mut d = c.clone();
                d.swap(i, i + 1);
                out.push(d.iter().collect());
            }
            if i > 0 {
                out.push(c[..i].iter().collect());
                out.push(c[i..].iter().collect());
            }
        }
    }
    out.retain(|s| !s.is_empty() && !valid.iter().any(|v| v.eq_ignore_ascii_case(s)));
    out.sort();
    out.dedup();
    out
}

/// Exhaustive: every neighbour of a valid unit, in three letter cases, with and without a blank, must be refused by both parsers.
fn neighbours(rep: &mut Report, _rng: &mut Rng, idx: u64) {
    let all = unit_neighbours();
    let unit = &all[(idx as usize / 6) % all.len()];
    let unit = match idx % 3 {
        0 => unit.clone(),
        1 => unit.to_ascii_uppercase(),
        _ => unit.chars().enumerate().map(|(k, c)| if k % 2 == 0 { c.to_ascii_uppercase() } else { c }).collect(),
    };
    let literal = format!("7{}{}", if (idx / 3) % 2 == 0 { " " } else { "" }, unit);
    rep.case(&format!("neighbour|{}", literal), true);
    rep.count("units_one_edit_away_from_a_valid_one", 1);
    let a = trap::catch(|| serde_json::from_str::<SizeTriggerConfig>(&format!("{{\"limit\": {}}}", serde_json::to_string(&literal).unwrap())).map(|v| format!("{:?}", v)));
    match a {
        Err(p) => rep.violation(&format!("C20:panic:size:{}", p.site()), json!({"literal": literal, "panic": p.message})),
        Ok(Ok(v)) => rep.violation("C20:size:bad-literal-accepted:unit-one-edit-away", json!({"literal": literal, "got": v})),
        Ok(Err(_)) => {}
    }
    let b = trap::catch(|| serde_json::from_str::<TimeTriggerInterval>(&serde_json::to_string(&literal).unwrap()).map(|v| format!("{:?}", v)));
    match b {
        Err(p) => rep.violation(&format!("C20:panic:interval:{}", p.site()), json!({"literal": literal, "panic": p.message})),
        Ok(Ok(v)) => rep.violation("C20:interval:bad-literal-accepted:unit-one-edit-away", json!({"literal": literal, "got": v})),
        Ok(Err(_)) => {}
    }
}

fn mixed_case(s: &str, rng: &mut Rng) -> String {
    // ASCII case changes only: Unicode case mapping would turn look-alikes (U+017F, U+212A) into real units
    match rng.below(3) {
        0 => s.to_owned(),
        1 => s.to_ascii_uppercase(),
        _ => s.chars().map(|c| if rng.chance(1, 2) { c.to_ascii_uppercase() } else { c }).collect(),
    }
}

fn interesting_numbers(rng: &mut Rng) -> String {
    // around every overflow threshold: 2^64/1024^k and 2^63, plus small values and long digit strings
    let thresholds: [u128; 7] = [1u128 << 64, 1u128 << 54, 1u128 << 44, 1u128 << 34, 1u128 << 24, 1u128 << 63, 1u128 << 53];
    match rng.below(8) {
        0 => rng.below(3).to_string(),
        1 => rng.below(5000).to_string(),
        2 | 3 | 4 => {
            let t = *rng.pick(&thresholds);
            let d = rng.range(-2, 2) as i128;
            ((t as i128 + d) as u128).to_string()
        }
        5 => format!("{}{}", 1 + rng.below(9), "0".repeat(6 + rng.usize_below(16))),
        6 => {
            // zero padding, also far beyond 19 / 20 digits in total: the value is what counts
            let zeros = *rng.pick(&[1usize, 2, 10, 17, 18, 19, 20, 25]);
            let v = if rng.chance(1, 2) { rng.below(100).to_string() } else { (rng.next_u64() >> rng.below(40)).to_string() };
            format!("{}{}", "0".repeat(zeros), v)
        }
        _ => (rng.next_u64() >> rng.below(60)).to_string(),
    }
}

#[derive(Debug, Clone, PartialEq)]
enum Want {
    Val(u128),
    Err,
}

fn ws(rng: &mut Rng) -> String {
    (*rng.pick(&["", "", " ", "  ", "\t", "   "])).to_owned()
}

fn debug_number(s: &str, key: &str) -> Option<u128> {
    // lenient: first integer after `key`
    let i = s.find(key)? + key.len();
    let digits: String = s[i..].chars().skip_while(|c| !c.is_ascii_digit() && *c != '-').take_while(|c| c.is_ascii_digit() || *c == '-').collect();
    digits.parse::<i128>().ok().and_then(|v| if v < 0 { None } else { Some(v as u128) })
}

fn yaml_quote(s: &str) -> String {
    format!("\"{}\"", s.replace('\\', "\\\\").replace('"', "\\\"").replace('\t', "\\t"))
}

fn size_case(rep: &mut Report, rng: &mut Rng, idx: u64) {
    let digits = interesting_numbers(rng);
    let n: u128 = digits.parse().unwrap();
    let kind = rng.below(11);
    // (literal, scalar form, expectation)
    let (lit, as_int, want) = match kind {
        // no number at all: the empty string, white space, a bare unit
        10 => (format!("{}{}{}", ws(rng), if rng.chance(1, 3) { "" } else { rng.pick(&SIZE_UNITS[..]).0 }, ws(rng)), false, Want::Err),
        0 => (n.to_string(), true, if n <= u64::MAX as u128 { Want::Val(n) } else { Want::Err }),
        1 => (digits.clone(), false, if n <= u64::MAX as u128 { Want::Val(n) } else { Want::Err }),
        2 => (format!("-{}", rng.below(100) + 1), rng.chance(1, 2), Want::Err),
        3 => (format!("{}{}{}", digits, ws(rng), junk_unit(rng)), false, Want::Err),
        4 => (format!("{}.{}{}{}", rng.below(100), rng.below(10), ws(rng), rng.pick(&SIZE_UNITS[..]).0), false, Want::Err),
        _ => {
            let (u, k) = *rng.pick(&SIZE_UNITS[..]);
            let v = n.checked_mul(1024u128.pow(k));
            let want = match v {
                Some(v) if n <= u64::MAX as u128 && v <= u64::MAX as u128 => Want::Val(v),
                _ => Want::Err,
            };
            (format!("{}{}{}", digits, ws(rng), mixed_case(u, rng)), false, want)
        }
    };
    let use_json = rng.chance(1, 3);
    // TOML has signed 64-bit integers only; strings are written with JSON's escapes, which TOML shares
    let use_toml = !use_json && rng.chance(1, 3) && !(as_int && n > i64::MAX as u128);
    let doc = if use_toml {
        if as_int { format!("limit = {}\n", lit) } else { format!("limit = {}\n", serde_json::to_string(&lit).unwrap()) }
    } else if use_json {
        if as_int { format!("{{\"limit\": {}}}", lit) } else { format!("{{\"limit\": {}}}", serde_json::to_string(&lit).unwrap()) }
    } else if as_int {
        format!("limit: {}\n", lit)
    } else {
        format!("limit: {}\n", yaml_quote(&lit))
    };
    rep.case(&format!("size|{}|{}|{}|{}", lit, as_int, use_json, use_toml), true);
    let r = trap::catch(|| {
        if use_toml {
            toml::from_str::<SizeTriggerConfig>(&doc).map_err(|e| e.to_string())
        } else if use_json {
            serde_json::from_str::<SizeTriggerConfig>(&doc).map_err(|e| e.to_string())
        } else {
            serde_yaml::from_str::<SizeTriggerConfig>(&doc).map_err(|e| e.to_string())
        }
    });
    let d = json!({"kind": "size limit", "literal": lit, "scalar_form": if as_int { "integer" } else { "string" },
        "format": if use_toml { "toml" } else if use_json { "json" } else { "yaml" }, "document": doc, "expected": format!("{:?}", want)});
    let got = match r {
        Err(p) => {
            rep.violation(&format!("C20:panic:size:{}", p.site()), json!({"case": d, "panic": p.message}));
            return;
        }
        Ok(Err(_)) => Want::Err,
        Ok(Ok(cfg)) => match debug_number(&format!("{:?}", cfg), "limit") {
            Some(v) => Want::Val(v),
            None => {
                rep.inconclusive("Debug rendering of SizeTriggerConfig is not parseable");
                return;
            }
        },
    };
    rep.count("size_literals", 1);
    if want == Want::Err {
        rep.count("literals_expected_to_be_rejected", 1);
    }
    if got != want {
        let sig = match (&want, &got) {
            (Want::Err, _) => "C20:size:bad-literal-accepted",
            (_, Want::Err) => "C20:size:good-literal-rejected",
            _ => "C20:size:wrong-value",
        };
        rep.violation(sig, json!({"case": d, "got": format!("{:?}", got)}));
    }
    if idx < 2 {
        rep.sample(d);
    }
}

fn interval_case(rep: &mut Report, rng: &mut Rng, idx: u64) {
    let digits = interesting_numbers(rng);
    let n: u128 = digits.parse().unwrap();
    let fits = n <= i64::MAX as u128;
    let kind = rng.below(11);
    let (lit, as_int, want): (String, bool, Option<(u8, u128)>) = match kind {
        10 => (format!("{}{}{}", ws(rng), if rng.chance(1, 3) { "" } else { rng.pick(&TIME_UNITS[..]).0 }, ws(rng)), false, None),
        0 => (n.to_string(), true, if fits { Some((0, n)) } else { None }),
        1 => (digits.clone(), false, if fits { Some((0, n)) } else { None }),
        2 => (format!("-{}", rng.below(100) + 1), rng.chance(1, 2), None),
        3 => (format!("{}{}{}", digits, ws(rng), junk_unit(rng)), false, None),
        4 => (format!("{}.{}{}{}", rng.below(100), rng.below(10), ws(rng), rng.pick(&TIME_UNITS[..]).0), false, None),
        _ => {
            let (u, k) = *rng.pick(&TIME_UNITS[..]);
            (format!("{}{}{}", digits, ws(rng), mixed_case(u, rng)), false, if fits { Some((k, n)) } else { None })
        }
    };
    let use_json = rng.chance(1, 3);
    let scalar = if use_json {
        if as_int { lit.clone() } else { serde_json::to_string(&lit).unwrap() }
    } else if as_int {
        lit.clone()
    } else {
        yaml_quote(&lit)
    };
    // half of the time inside a TimeTriggerConfig document
    let in_config = rng.chance(1, 2);
    rep.case(&format!("interval|{}|{}|{}|{}", lit, as_int, use_json, in_config), true);
    let d = json!({"kind": "time interval", "literal": lit, "scalar_form": if as_int { "integer" } else { "string" },
        "format": if use_json { "json" } else { "yaml" }, "inside_trigger_config": in_config,
        "expected": want.map(|(k, n)| format!("{}({})", ["Second", "Minute", "Hour", "Day", "Week", "Month", "Year"][k as usize], n))});
    let r = trap::catch(|| -> Result<String, String> {
        if in_config {
            let doc = if use_json { format!("{{\"interval\": {}}}", scalar) } else { format!("interval: {}\n", scalar) };
            let c: TimeTriggerConfig = if use_json {
                serde_json::from_str(&doc).map_err(|e| e.to_string())?
            } else {
                serde_yaml::from_str(&doc).map_err(|e| e.to_string())?
            };
            Ok(format!("{:?}", c))
        } else {
            let v: TimeTriggerInterval = if use_json {
                serde_json::from_str(&scalar).map_err(|e| e.to_string())?
            } else {
                serde_yaml::from_str(&scalar).map_err(|e| e.to_string())?
            };
            Ok(format!("{:?}", v))
        }
    });
    let got: Option<(u8, i128)> = match r {
        Err(p) => {
            rep.violation(&format!("C20:panic:interval:{}", p.site()), json!({"case": d, "panic": p.message}));
            return;
        }
        Ok(Err(_)) => None,
        Ok(Ok(dbg)) => {
            let names = ["Second(", "Minute(", "Hour(", "Day(", "Week(", "Month(", "Year("];
            let mut found = None;
            for (k, nm) in names.iter().enumerate() {
                if let Some(i) = dbg.find(nm) {
                    let num: String = dbg[i + nm.len()..].chars().take_while(|c| c.is_ascii_digit() || *c == '-').collect();
                    if let Ok(v) = num.parse::<i128>() {
                        found = Some((k as u8, v));
                    }
                }
            }
            if found.is_none() {
                rep.inconclusive("Debug rendering of the interval is not parseable");
                return;
            }
            found
        }
    };
    // a literal that was accepted must also be usable: the trigger is built from it without panicking
    if in_config && got.is_some() {
        let doc = format!("{{\"interval\": {}}}", if as_int { lit.clone() } else { serde_json::to_string(&lit).unwrap() });
        if let Ok(value) = serde_json::from_str::<serde_value::Value>(&doc) {
            use log4rs::append::rolling_file::policy::compound::trigger::Trigger;
            let r = trap::catch(|| log4rs::config::Deserializers::default().deserialize::<dyn Trigger>("time", value).map(|_| ()));
            rep.count("time_triggers_built_from_accepted_literals", 1);
            if let Err(p) = r {
                rep.violation(&format!("C20:panic:building-trigger-from-accepted-interval:{}", if p.in_repo() { p.site() } else { "chrono".into() }),
                    json!({"case": d, "panic": p.message}));
            }
        }
    }
    rep.count("interval_literals", 1);
    if want.is_none() {
        rep.count("literals_expected_to_be_rejected", 1);
    }
    let want_i = want.map(|(k, n)| (k, n as i128));
    if got != want_i {
        let sig = match (&want_i, &got) {
            (None, Some((_, v))) if *v < 0 => "C20:interval:overflow-wrapped-negative",
            (None, _) => "C20:interval:bad-literal-accepted",
            (_, None) => "C20:interval:good-literal-rejected",
            _ => "C20:interval:wrong-value",
        };
        rep.violation(sig, json!({"case": d, "got": format!("{:?}", got)}));
    }
    if idx < 2 {
        rep.sample(d);
    }
}

/// The parsed limit observed behaviourally: a rolling appender with a delete roller
/// deletes the file exactly when it grows beyond the limit.
fn behavioural(rep: &mut Report, rng: &mut Rng, _idx: u64) {
    let n = rng.below(4);
    let (lit, limit): (String, u64) = match rng.below(3) {
        0 => (format!("{}", 100 + n * 7), 100 + n * 7),
        1 => (format!("{} kb", 1 + n), (1 + n) * 1024),
        _ => (format!("{}KiB", 1 + n), (1 + n) * 1024),
    };
    let sc = Scratch::new("c20");
    let doc = format!(
        "path: '{}/app.log'\nencoder: {{pattern: '{{m}}'}}\npolicy:\n  trigger: {{kind: size, limit: '{}'}}\n  roller: {{kind: delete}}\n",
        sc.path.to_str().unwrap(), lit);
    let value: serde_value::Value = serde_yaml::from_str(&doc).unwrap();
    let app = match log4rs::config::Deserializers::default().deserialize::<dyn Append>("rolling_file", value) {
        Ok(a) => a,
        Err(e) => {
            rep.violation("C20:size:good-literal-rejected", json!({"literal": lit, "error": format!("{:#}", e)}));
            return;
        }
    };
    rep.case(&format!("behaviour|{}", lit), true);
    // grow the file one byte at a time around the limit
    let chunk = "x".repeat((limit - 3) as usize);
    let one = |s: &str| {
        let _ = app.append(&log::Record::builder().level(log::Level::Info).args(format_args!("{}", s)).build());
        std::fs::metadata(sc.join("app.log")).map(|m| m.len()).ok()
    };
    let mut sizes = vec![one(&chunk)];
    for _ in 0..6 {
        sizes.push(one("y"));
    }
    // expected: limit-3, limit-2, limit-1, limit, then (limit+1 > limit) rolled away => absent, then 1, 2
    let want = vec![Some(limit - 3), Some(limit - 2), Some(limit - 1), Some(limit), None, Some(1), Some(2)];
    rep.count("behavioural_limit_checks", 1);
    if sizes != want {
        rep.violation("C20:size:limit-behaves-differently", json!({"literal": lit, "expected_limit": limit,
            "file_sizes_after_each_append": format!("{:?}", sizes), "expected": format!("{:?}", want)}));
    }
}

fn refresh_rate(rep: &mut Report) {
    let cases: [(&str, Option<u64>); 10] = [
        ("30 seconds", Some(30)), ("5 minutes", Some(300)), ("1 hour", Some(3600)), ("2h", Some(7200)), ("90s", Some(90)),
        ("abc", None), ("-5 seconds", None), ("5 fortnights", None), ("", None), ("1 hour 30 minutes", Some(5400)),
    ];
    for (lit, want) in cases {
        let doc = format!("refresh_rate: {}\n", yaml_quote(lit));
        let r = trap::catch(|| serde_yaml::from_str::<log4rs::config::RawConfig>(&doc).map(|c| c.refresh_rate()).map_err(|e| e.to_string()));
        rep.case_enumerated(true);
        rep.count("refresh_rate_literals", 1);
        match r {
            Err(p) => rep.violation(&format!("C20:panic:refresh_rate:{}", p.site()), json!({"literal": lit, "panic": p.message})),
            Ok(res) => {
                let got = res.ok().flatten().map(|d| d.as_secs());
                if got != want {
                    rep.violation("C20:refresh_rate", json!({"literal": lit, "expected_seconds": want, "got_seconds": got}));
                }
            }
        }
    }
}

/// Parsing is a pure function: many threads parsing *different* literals at the same time get each their own
/// value (a process-wide memo of "the last literal" must not leak between them).
fn concurrent_literals(rep: &mut Report) {
    if rep.only.is_some() {
        return;
    }
    const SIZE: [(&str, u128); 8] = [("1 kb", 1024), ("6 b", 6), ("7 kb", 7168), ("4 tb", 4 << 40), ("3mb", 3 << 20), ("1023", 1023), ("2 GiB", 2 << 30), ("0", 0)];
    const TIME: [(&str, &str); 6] = [("1 second", "Second(1)"), ("2 weeks", "Week(2)"), ("3 hours", "Hour(3)"), ("45", "Second(45)"), ("7days", "Day(7)"), ("12 months", "Month(12)")];
    let per_thread: usize = if rep.tier == "thorough" { 400_000 } else { 100_000 };
    let wrong: std::sync::Mutex<Vec<String>> = Default::default();
    std::thread::scope(|s| {
        for t in 0..8usize {
            let wrong = &wrong;
            s.spawn(move || {
                let mut x = 0x9e3779b97f4a7c15u64.wrapping_mul(t as u64 + 1);
                for _ in 0..per_thread {
                    let r = crate::rng::splitmix(&mut x);
                    if r % 2 == 0 {
                        let (lit, want) = SIZE[(r >> 8) as usize % SIZE.len()];
                        let got = serde_json::from_str::<SizeTriggerConfig>(&format!("{{\"limit\": \"{}\"}}", lit)).ok()
                            .and_then(|c| debug_number(&format!("{:?}", c), "limit"));
                        if got != Some(want) {
                            wrong.lock().unwrap().push(format!("size literal {:?} parsed as {:?}, expected {}", lit, got, want));
                            return;
                        }
                    } else {
                        let (lit, want) = TIME[(r >> 8) as usize % TIME.len()];
                        let got = serde_json::from_str::<TimeTriggerInterval>(&format!("\"{}\"", lit)).map(|v| format!("{:?}", v)).ok();
                        if got.as_deref() != Some(want) {
                            wrong.lock().unwrap().push(format!("interval literal {:?} parsed as {:?}, expected {}", lit, got, want));
                            return;
                        }
                    }
                }
            });
        }
    });
    rep.case_enumerated(true);
    rep.count("literals_parsed_by_eight_threads_at_once", (8 * per_thread) as i64);
    let wrong = wrong.into_inner().unwrap();
    if !wrong.is_empty() {
        rep.violation("C20:value-of-another-literal:concurrent-parsing", json!({"what": wrong, "threads": 8}));
    }
}

pub fn run(rep: &mut Report) {
    rep.rule = "literals '<number><0-3 spaces or a tab><unit>' with numbers {0, small, 2^k-2..2^k+2 around every overflow threshold \
        (2^64, 2^54, 2^44, 2^34, 2^24 for sizes; 2^63 for intervals), 18-23 digit strings, leading zeros}, every documented unit in \
        lower / upper / mixed case, bare numbers in string and integer scalar form, negative numbers, fractions, junk and \
        near-miss units; deserialised through serde_yaml and serde_json into SizeTriggerConfig / TimeTriggerInterval / \
        TimeTriggerConfig under a panic trap; expected values from the harness's own 128-bit arithmetic; small limits \
        additionally observed behaviourally through a rolling appender; non-trivial = every literal; distinct = distinct \
        (literal, scalar form, format)".to_owned();
    rep.assume("leading / trailing whitespace and integer refresh_rate values are don't-care (the statement is silent)");
    rep.assume("the parsed value is read from the Debug rendering of the config structs");
    let n = if rep.tier == "thorough" { 500_000 } else { 80_000 };
    run_cases(rep, "size", n, size_case);
    run_cases(rep, "interval", n, interval_case);
    run_cases(rep, "twins", if rep.tier == "thorough" { 40_000 } else { 4_000 }, twins);
    run_cases(rep, "neighbours", unit_neighbours().len() as u64 * 6, neighbours);
    run_cases(rep, "behaviour", if rep.tier == "thorough" { 400 } else { 40 }, behavioural);
    refresh_rate(rep);
    concurrent_literals(rep);
    rep.require(rep.counter("literals_expected_to_be_rejected") > 1000, "too few bad literals");
    rep.require(rep.counter("behavioural_limit_checks") >= 20, "too few behavioural limit checks");
}
