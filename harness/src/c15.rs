//! C15 — runtime reconfiguration is atomic; the file reloader keeps the last good config.

use crate::childproc::run_child;
use crate::frames::stamp;
use crate::fsutil::Scratch;
use crate::par::run_cases;
use crate::report::Report;
use crate::rng::Rng;
use crate::routing::*;
use crate::trap;
use log::{Level, LevelFilter, Record};
use log4rs::append::Append;
use log4rs::config::{Appender, Config, Deserializers, Logger as CfgLogger, Root};
use serde_json::{json, Value};
use std::cell::RefCell;
use std::sync::atomic::{AtomicBool, AtomicU64, Ordering};
use std::sync::{Arc, Mutex};
use std::time::{Duration, SystemTime};

// ------------------------------------------------ tagged capturing appender

thread_local! {
    /// deliveries of the log call in progress on this thread: (generation, appender name)
    static DELIV: RefCell<Vec<(u32, String)>> = const { RefCell::new(Vec::new()) };
}

#[derive(Debug)]
struct GenCap {
    gen: u32,
    name: String,
}

impl Append for GenCap {
    fn append(&self, _r: &Record) -> anyhow::Result<()> {
        DELIV.with(|d| d.borrow_mut().push((self.gen, self.name.clone())));
        Ok(())
    }
    fn flush(&self) {}
}

/// Records the delivery, then reports an error.
#[derive(Debug)]
struct FailCap {
    gen: u32,
    name: String,
}

impl Append for FailCap {
    fn append(&self, _r: &Record) -> anyhow::Result<()> {
        DELIV.with(|d| d.borrow_mut().push((self.gen, self.name.clone())));
        Err(anyhow::anyhow!("g{} {} failed", self.gen, self.name))
    }
    fn flush(&self) {}
}

/// Two families of shapes whose appender tables differ in length (5 vs 1) and whose
/// levels differ, so that a tree/table or level/fan-out mixture is observable.
fn gen_spec_for(g: u32, rng: &mut Rng) -> ConfSpec {
    if g % 2 == 0 {
        let appenders: Vec<String> = (0..5).map(|i| format!("A{}", i)).collect();
        ConfSpec {
            appenders: appenders.clone(),
            root_level: *rng.pick(&[LevelFilter::Trace, LevelFilter::Debug, LevelFilter::Info]),
            root_appenders: vec!["A0".into(), "A4".into()],
            loggers: vec![
                LoggerSpec { name: "x".into(), level: LevelFilter::Trace, additive: true, appenders: vec!["A1".into(), "A3".into()] },
                LoggerSpec { name: "x::y".into(), level: *rng.pick(&[LevelFilter::Warn, LevelFilter::Trace]), additive: false, appenders: vec!["A2".into(), "A4".into(), "A4".into()] },
                LoggerSpec { name: "z".into(), level: LevelFilter::Off, additive: true, appenders: vec!["A3".into()] },
            ],
        }
    } else {
        ConfSpec {
            appenders: vec!["B0".into()],
            root_level: *rng.pick(&[LevelFilter::Error, LevelFilter::Warn, LevelFilter::Trace]),
            root_appenders: vec!["B0".into()],
            loggers: if rng.chance(1, 2) {
                vec![LoggerSpec { name: "x".into(), level: *rng.pick(&[LevelFilter::Error, LevelFilter::Off, LevelFilter::Trace]), additive: true, appenders: vec![] }]
            } else {
                vec![]
            },
        }
    }
}

fn build_gen(spec: &ConfSpec, g: u32) -> Config {
    let mut b = Config::builder();
    for a in &spec.appenders {
        b = b.appender(Appender::builder().build(a.clone(), Box::new(GenCap { gen: g, name: a.clone() })));
    }
    for l in &spec.loggers {
        let mut lb = CfgLogger::builder().additive(l.additive);
        for a in &l.appenders {
            lb = lb.appender(a.clone());
        }
        b = b.logger(lb.build(l.name.clone(), l.level));
    }
    let mut rb = Root::builder();
    for a in &spec.root_appenders {
        rb = rb.appender(a.clone());
    }
    b.build(rb.build(spec.root_level)).expect("generation configs are valid")
}

const PROBES: [(&str, Level); 8] = [
    ("x", Level::Debug), ("x::y", Level::Info), ("x::y::q", Level::Error), ("z", Level::Error), ("other", Level::Trace),
    ("x", Level::Error), ("other", Level::Warn), ("x::y", Level::Trace),
];

#[derive(Clone)]
struct SwapEv {
    gen: u32,
    inv: u64,
    ret: u64,
}

/// Compact record of one log call; delivery content is checked online by the logging thread.
struct LogEv {
    probe: u8,
    inv: u64,
    ret: u64,
    /// generation all deliveries carried (None = nothing was delivered)
    gen: Option<u32>,
}

fn stress(rep: &mut Report, rng: &mut Rng, idx: u64, log_threads: usize, swap_threads: usize, logs_per_thread: usize, max_gens: u32) {
    let mut specs: Vec<ConfSpec> = vec![];
    let mut srng = Rng::new(rng.next_u64());
    for g in 0..64 {
        specs.push(gen_spec_for(g, &mut srng));
    }
    // generation g uses specs[g % 64]
    let specs = Arc::new(specs);
    let logger = Arc::new(log4rs::Logger::new(build_gen(&specs[0], 0)));
    let handle = logger.verif_handle();
    let next_gen = Arc::new(AtomicU64::new(1));
    let stop = Arc::new(AtomicBool::new(false));
    let swaps: Arc<Mutex<Vec<SwapEv>>> = Arc::new(Mutex::new(vec![SwapEv { gen: 0, inv: 0, ret: 0 }]));
    let logs: Arc<Mutex<Vec<LogEv>>> = Arc::new(Mutex::new(vec![]));
    let online: Arc<Mutex<Vec<(String, Value)>>> = Arc::new(Mutex::new(vec![]));
    let stop_logs = Arc::new(AtomicBool::new(false));
    let stop_logs = &stop_logs;
    std::thread::scope(|s| {
        for _ in 0..swap_threads {
            let (handle, specs, next_gen, stop, swaps, stop_logs) = (handle.clone(), specs.clone(), next_gen.clone(), stop.clone(), swaps.clone(), stop_logs.clone());
            s.spawn(move || {
                let mut mine = vec![];
                while !stop.load(Ordering::Relaxed) {
                    let g = next_gen.fetch_add(1, Ordering::Relaxed) as u32;
                    if g >= max_gens {
                        stop_logs.store(true, Ordering::Relaxed);
                        break;
                    }
                    let cfg = build_gen(&specs[(g % 64) as usize], g);
                    let inv = stamp();
                    handle.set_config(cfg);
                    let ret = stamp();
                    mine.push(SwapEv { gen: g, inv, ret });
                    if g % 7 == 0 {
                        std::thread::yield_now();
                    }
                }
                swaps.lock().unwrap().extend(mine);
            });
        }
        let mut hs = vec![];
        for t in 0..log_threads {
            let (logger, logs, specs, online) = (logger.clone(), logs.clone(), specs.clone(), online.clone());
            hs.push(s.spawn(move || {
                let mut mine = Vec::with_capacity(logs_per_thread);
                let mut problems: Vec<(String, Value)> = vec![];
                for i in 0..logs_per_thread {
                    let probe = (i + t) % PROBES.len();
                    let (target, level) = PROBES[probe];
                    DELIV.with(|d| d.borrow_mut().clear());
                    let inv = stamp();
                    let r = trap::catch(|| {
                        log::Log::log(&*logger, &Record::builder().target(target).level(level).args(format_args!("r")).build())
                    });
                    let ret = stamp();
                    let pd = || json!({"target": target, "level": level.to_string(), "inv": inv, "ret": ret});
                    if let Err(p) = r {
                        if problems.len() < 5 {
                            problems.push(("C15:panic-during-log".into(), json!({"probe": pd(), "panic": format!("{} at {}", p.message, p.site())})));
                        }
                        continue;
                    }
                    let gen = DELIV.with(|d| {
                        let d = d.borrow();
                        if d.is_empty() {
                            return None;
                        }
                        let g = d[0].0;
                        if d.iter().any(|(x, _)| *x != g) {
                            if problems.len() < 5 {
                                problems.push(("C15:mixed-generations-in-one-record".into(), json!({"probe": pd(), "deliveries": format!("{:?}", *d)})));
                            }
                            return Some(u32::MAX);
                        }
                        let mut got: Vec<&str> = d.iter().map(|(_, n)| n.as_str()).collect();
                        got.sort();
                        let want = specs[(g % 64) as usize].expected(target, level);
                        if got.len() != want.len() || got.iter().zip(want.iter()).any(|(a, b)| *a != b.as_str()) {
                            if problems.len() < 5 {
                                problems.push(("C15:routed-under-a-mixture".into(), json!({"probe": pd(), "generation": g,
                                    "expected_under_that_generation": want, "got": format!("{:?}", got)})));
                            }
                            return Some(u32::MAX);
                        }
                        Some(g)
                    });
                    if gen == Some(u32::MAX) {
                        continue;
                    }
                    mine.push(LogEv { probe: probe as u8, inv, ret, gen });
                    if i % 64 == 0 && stop_logs.load(Ordering::Relaxed) {
                        break;
                    }
                }
                logs.lock().unwrap().extend(mine);
                online.lock().unwrap().extend(problems);
            }));
        }
        for h in hs {
            let _ = h.join();
        }
        stop.store(true, Ordering::Relaxed);
    });
    // ---- offline check
    let mut swaps = swaps.lock().unwrap().clone();
    swaps.sort_by_key(|s| s.inv);
    let n = swaps.len();
    // dead[i] = earliest instant at which swap i is definitely overwritten
    let mut suffix_min_ret = vec![u64::MAX; n + 1];
    for i in (0..n).rev() {
        suffix_min_ret[i] = suffix_min_ret[i + 1].min(swaps[i].ret);
    }
    let dead: Vec<u64> = (0..n)
        .map(|i| {
            let j = swaps.partition_point(|s| s.inv <= swaps[i].ret);
            suffix_min_ret[j]
        })
        .collect();
    let by_gen: std::collections::HashMap<u32, usize> = swaps.iter().enumerate().map(|(i, s)| (s.gen, i)).collect();
    let expected = |g: u32, probe: usize| -> Vec<String> {
        let (t, l) = PROBES[probe];
        specs[(g % 64) as usize].expected(t, l)
    };
    let desc = json!({"log_threads": log_threads, "swap_threads": swap_threads, "logs_per_thread": logs_per_thread, "swaps": n});
    // per probe: invocation stamps of the swaps whose configuration is silent for it, with the running maximum of `dead`
    let silent_index: Vec<(Vec<u64>, Vec<u64>)> = (0..PROBES.len())
        .map(|p| {
            let mut invs = vec![];
            let mut pmax = vec![];
            let mut m = 0u64;
            for (i, s) in swaps.iter().enumerate() {
                if expected(s.gen, p).is_empty() {
                    m = m.max(dead[i]);
                    invs.push(s.inv);
                    pmax.push(m);
                }
            }
            (invs, pmax)
        })
        .collect();
    for (sig, d) in online.lock().unwrap().drain(..) {
        rep.violation(&sig, json!({"run": desc, "detail": d}));
    }
    let logs = logs.lock().unwrap();
    let mut gens_seen = std::collections::HashSet::new();
    for l in logs.iter() {
        rep.count("log_calls_checked", 1);
        let (t, lv) = PROBES[l.probe as usize];
        let pd = json!({"target": t, "level": lv.to_string(), "inv": l.inv, "ret": l.ret});
        let Some(g) = l.gen else {
            // some admissible generation must explain the silence: among the swaps invoked before the log
            // returned whose configuration delivers nothing for this probe, one must not be definitely
            // overwritten before the log began (exact query: prefix maximum of `dead` in invocation order)
            let (invs, pmax) = &silent_index[l.probe as usize];
            let k = invs.partition_point(|inv| *inv < l.ret);
            let ok = k > 0 && pmax[k - 1] > l.inv;
            rep.count("silent_log_calls", 1);
            if !ok {
                rep.violation("C15:record-dropped-under-every-admissible-configuration", json!({"run": desc, "probe": pd}));
            }
            continue;
        };
        gens_seen.insert(g);
        // freshness: g must have started before the log returned and not be definitely overwritten before it began
        match by_gen.get(&g) {
            None => rep.violation("C15:unknown-generation", json!({"run": desc, "generation": g})),
            Some(&i) => {
                if swaps[i].inv >= l.ret {
                    rep.violation("C15:configuration-from-the-future", json!({"run": desc, "probe": pd, "generation": g}));
                } else if dead[i] < l.inv {
                    rep.violation("C15:stale-configuration-after-set_config-returned", json!({"run": desc, "probe": pd, "generation": g,
                        "set_config_returned_at": swaps[i].ret, "definitely_overwritten_at": dead[i]}));
                }
            }
        }
    }
    rep.count("swaps_performed", n as i64 - 1);
    rep.count("distinct_generations_observed_by_log_calls", gens_seen.len() as i64);
    rep.case(&format!("stress|{}|{}", desc, idx), true);
    if idx == 0 {
        rep.sample(json!({"kind": "stress", "run": desc, "generations_observed": gens_seen.len()}));
    }
}

// --------------------------------------------------------------- re-entrancy

#[derive(Debug)]
struct SwapOnAppend {
    gen: u32,
    handle: Mutex<Option<log4rs::Handle>>,
    next: Mutex<Option<Config>>,
    fail: bool,
}

impl Append for SwapOnAppend {
    fn append(&self, _r: &Record) -> anyhow::Result<()> {
        DELIV.with(|d| d.borrow_mut().push((self.gen, "SWAP".into())));
        let h = self.handle.lock().unwrap().clone();
        let cfg = self.next.lock().unwrap().take();
        if let (Some(h), Some(cfg)) = (h, cfg) {
            h.set_config(cfg);
        }
        if self.fail {
            return Err(anyhow::anyhow!("g{} SWAP failed", self.gen));
        }
        Ok(())
    }
    fn flush(&self) {}
}

fn reentrant(rep: &mut Report, _rng: &mut Rng, idx: u64) {
    // generation 1: [P0.., SWAP, ..Pk] on the root; SWAP installs generation 2 (a single appender N)
    let before = (idx % 4) as usize;
    let after = ((idx / 4) % 4) as usize;
    // which appenders of generation 1 report an error: none / the swapping one / the last one / the first one and the swapping one
    let fail_kind = (idx / 16) % 4;
    let swapper = Arc::new(SwapOnAppend { gen: 1, handle: Mutex::new(None), next: Mutex::new(None), fail: fail_kind == 1 || fail_kind == 3 });
    let mut want_errors: Vec<String> = vec![];
    #[derive(Debug)]
    struct Fwd(Arc<SwapOnAppend>);
    impl Append for Fwd {
        fn append(&self, r: &Record) -> anyhow::Result<()> {
            self.0.append(r)
        }
        fn flush(&self) {}
    }
    let mut b = Config::builder();
    let mut rb = Root::builder();
    let mut want1: Vec<String> = vec![];
    for i in 0..before {
        let n = format!("P{}", i);
        let boxed: Box<dyn Append> = if fail_kind == 3 && i == 0 {
            want_errors.push(format!("g1 {} failed", n));
            Box::new(FailCap { gen: 1, name: n.clone() })
        } else {
            Box::new(GenCap { gen: 1, name: n.clone() })
        };
        b = b.appender(Appender::builder().build(n.clone(), boxed));
        rb = rb.appender(n.clone());
        want1.push(n);
    }
    b = b.appender(Appender::builder().build("SWAP", Box::new(Fwd(swapper.clone()))));
    rb = rb.appender("SWAP");
    want1.push("SWAP".into());
    if swapper.fail {
        want_errors.push("g1 SWAP failed".into());
    }
    for i in 0..after {
        let n = format!("Q{}", i);
        let boxed: Box<dyn Append> = if fail_kind == 2 && i + 1 == after {
            want_errors.push(format!("g1 {} failed", n));
            Box::new(FailCap { gen: 1, name: n.clone() })
        } else {
            Box::new(GenCap { gen: 1, name: n.clone() })
        };
        b = b.appender(Appender::builder().build(n.clone(), boxed));
        rb = rb.appender(n.clone());
        want1.push(n);
    }
    let cfg1 = b.build(rb.build(LevelFilter::Trace)).unwrap();
    let cfg2 = Config::builder()
        .appender(Appender::builder().build("N", Box::new(GenCap { gen: 2, name: "N".into() })))
        .build(Root::builder().appender("N").build(LevelFilter::Trace))
        .unwrap();
    // generation 1 has its own error handler: the errors of a record routed under generation 1 belong to it
    let handled: Arc<Mutex<Vec<String>>> = Arc::new(Mutex::new(vec![]));
    let h2 = handled.clone();
    let logger = log4rs::Logger::new_with_err_handler(cfg1, Box::new(move |e: &anyhow::Error| h2.lock().unwrap().push(e.to_string())));
    *swapper.handle.lock().unwrap() = Some(logger.verif_handle());
    *swapper.next.lock().unwrap() = Some(cfg2);
    let d = json!({"appenders_before_the_swapping_one": before, "after": after, "errors_reported_by_generation_1_appenders": want_errors});
    rep.case(&format!("reentrant|{}|{}|{}", before, after, fail_kind), true);
    rep.count("reentrant_swaps", 1);
    let one = |rep: &mut Report| -> Option<Vec<(u32, String)>> {
        DELIV.with(|d| d.borrow_mut().clear());
        match trap::catch(|| log::Log::log(&logger, &Record::builder().target("t").level(Level::Info).args(format_args!("r")).build())) {
            Err(p) => {
                rep.violation("C15:panic-during-reentrant-swap", json!({"case": d, "panic": p.message, "at": p.site()}));
                None
            }
            Ok(()) => Some(DELIV.with(|d| std::mem::take(&mut *d.borrow_mut()))),
        }
    };
    let Some(first) = one(rep) else { return };
    let want_first: Vec<(u32, String)> = want1.iter().map(|n| (1, n.clone())).collect();
    if first != want_first {
        rep.violation("C15:reentrant-swap-changed-the-record-in-progress", json!({"case": d,
            "expected": format!("{:?}", want_first), "got": format!("{:?}", first)}));
    }
    let got_errors = std::mem::take(&mut *handled.lock().unwrap());
    rep.count("reentrant_errors_expected_at_the_old_generations_handler", want_errors.len() as i64);
    if got_errors != want_errors {
        rep.violation("C15:errors-of-the-record-in-progress-not-handled-under-its-own-configuration", json!({"case": d,
            "handler_of_generation_1_received": got_errors, "expected": want_errors}));
    }
    let Some(second) = one(rep) else { return };
    if !handled.lock().unwrap().is_empty() {
        rep.violation("C15:old-handler-called-for-a-record-after-the-swap", json!({"case": d, "got": format!("{:?}", handled.lock().unwrap())}));
    }
    if second != vec![(2u32, "N".to_owned())] {
        rep.violation("C15:record-after-swap-not-under-new-configuration", json!({"case": d, "got": format!("{:?}", second)}));
    }
}

// ------------------------------------------------------------------ reloader

#[derive(Clone)]
struct CapDeser {
    sink: Sink,
    constructions: Arc<AtomicU64>,
}

#[derive(serde::Deserialize)]
struct CapCfg {
    tag: String,
}

impl log4rs::config::Deserialize for CapDeser {
    type Trait = dyn Append;
    type Config = CapCfg;
    fn deserialize(&self, c: CapCfg, _: &Deserializers) -> anyhow::Result<Box<dyn Append>> {
        self.constructions.fetch_add(1, Ordering::SeqCst);
        Ok(Box::new(Cap { name: c.tag, sink: self.sink.clone() }))
    }
}

/// The tag of appender `a` in document version `version`. Bit 32 of the version widens the blank run inside
/// the tag, so two documents can differ in nothing but the amount of white space inside a quoted value.
fn tag_of(a: &str, version: u64) -> String {
    format!("{}{}#v{}", a, if version >> 32 & 1 == 1 { "   " } else { " " }, version & 0xffff_ffff)
}

fn render_doc(spec: &ConfSpec, rate_secs: Option<u64>, version: u64, fmt: u64) -> String {
    // appender tags carry the document version, so a delivery identifies the document that built its appender
    let mut apps = serde_json::Map::new();
    for a in &spec.appenders {
        apps.insert(a.clone(), json!({"kind": "cap", "tag": tag_of(a, version)}));
    }
    let mut loggers = serde_json::Map::new();
    for l in &spec.loggers {
        loggers.insert(l.name.clone(), json!({"level": l.level.to_string().to_lowercase(), "additive": l.additive, "appenders": l.appenders}));
    }
    let mut doc = serde_json::Map::new();
    if let Some(r) = rate_secs {
        doc.insert("refresh_rate".into(), json!(format!("{} seconds", r)));
    }
    doc.insert("appenders".into(), Value::Object(apps));
    doc.insert("root".into(), json!({"level": spec.root_level.to_string().to_lowercase(), "appenders": spec.root_appenders}));
    doc.insert("loggers".into(), Value::Object(loggers));
    let v = Value::Object(doc);
    if fmt == 0 {
        serde_json::to_string_pretty(&v).unwrap()
    } else {
        serde_yaml::to_string(&v).unwrap()
    }
}

fn reloader_history(rep: &mut Report, rng: &mut Rng, idx: u64) {
    let sc = Scratch::new("c15r");
    let fmt = rng.below(2);
    // half of the histories reach the document through a symbolic link (deployments that switch a `current` link)
    let real = sc.join(if fmt == 0 { "real/cfg.json" } else { "real/cfg.yaml" });
    std::fs::create_dir_all(real.parent().unwrap()).unwrap();
    let via_link = rng.chance(1, 2);
    let link = sc.join(if fmt == 0 { "cfg.json" } else { "cfg.yaml" });
    if via_link {
        std::os::unix::fs::symlink(&real, &link).unwrap();
        rep.count("reloader_histories_through_a_symlink", 1);
    }
    let path = if via_link { link.clone() } else { real.clone() };
    let sink = new_sink();
    let constructions = Arc::new(AtomicU64::new(0));
    let mut d = Deserializers::default();
    d.insert("cap", CapDeser { sink: sink.clone(), constructions: constructions.clone() });
    let mut version = 1u64;
    let mut rate = Some(30u64);
    let mut active = gen_spec(rng, 4, 3);
    if rng.chance(1, 2) {
        active.root_level = LevelFilter::Info;
    }
    let mut text = render_doc(&active, rate, version, fmt);
    let mut mtime = SystemTime::UNIX_EPOCH + Duration::from_secs(1_700_000_000);
    let write = |text: &str, mtime: SystemTime| {
        // edits always go to the real file (in place)
        std::fs::write(&real, text).unwrap();
        let f = std::fs::OpenOptions::new().write(true).open(&real).unwrap();
        f.set_modified(mtime).unwrap();
    };
    write(&text, mtime);
    let logger = log4rs::Logger::new(Config::builder().build(Root::builder().build(LevelFilter::Off)).unwrap());
    let (mut reloader, r0) = match log4rs::config::VerifReloader::new(&path, d, logger.verif_handle()) {
        Ok(x) => x,
        Err(e) => {
            rep.violation("C15:reloader:initial-load-failed", json!({"error": format!("{:#}", e), "document": text}));
            return;
        }
    };
    let mut ops: Vec<String> = vec!["init".into()];
    let fail = |rep: &mut Report, ops: &Vec<String>, sig: &str, what: String| {
        rep.violation(&format!("C15:reloader:{}", sig), json!({"edit_history": ops.join(" "), "format": if fmt == 0 { "json" } else { "yaml" }, "what": what}));
    };
    if r0 != rate.map(Duration::from_secs) {
        fail(rep, &ops, "refresh-rate", format!("initial refresh rate {:?}, expected {:?}", r0, rate));
        return;
    }
    let mut last_polled: Option<String> = Some(text.clone());
    let mut active_version = version;
    let probe = |rep: &mut Report, ops: &Vec<String>, active: &ConfSpec, v: u64, rng: &mut Rng| -> bool {
        let mut targets = probe_targets(active, rng);
        targets.truncate(12);
        for t in targets {
            for lvl in [Level::Error, Level::Info, Level::Trace] {
                let got = deliver(&logger, &sink, &t, lvl, 1);
                let mut want: Vec<String> = active.expected(&t, lvl).iter().map(|a| tag_of(a, v)).collect();
                want.sort();
                if got != want {
                    rep.violation("C15:reloader:active-configuration-differs", json!({"edit_history": ops.join(" "),
                        "target": t, "level": lvl.to_string(), "expected": want, "got": got}));
                    return false;
                }
            }
        }
        true
    };
    constructions.store(0, Ordering::SeqCst);
    if !probe(rep, &ops, &active, active_version, rng) {
        return;
    }
    let steps = 3 + rng.usize_below(10);
    for _ in 0..steps {
        let Some(cur_rate) = rate else { break };
        mtime += Duration::from_secs(1 + rng.below(5));
        let kind = rng.below(15);
        // what is on disk after the edit: None = deleted
        let mut on_disk: Option<String> = Some(text.clone());
        let mut new_valid: Option<(ConfSpec, Option<u64>, u64)> = None;
        match kind {
            0 => ops.push("poll-unchanged".into()),
            1 => {
                ops.push("touch".into());
                write(&text, mtime);
            }
            2 => {
                ops.push("syntax-error".into());
                let broken = format!("{}\n}}}}]] : [ not valid", text);
                write(&broken, mtime);
                on_disk = Some(broken);
            }
            3 => {
                ops.push("delete".into());
                let _ = std::fs::remove_file(&real);
                on_disk = None;
            }
            4 => {
                let nr = if rng.chance(1, 3) { None } else { Some(*rng.pick(&[5u64, 30, 60, 120])) };
                ops.push(format!("valid-change(rate={:?})", nr));
                version += 1;
                let spec = gen_spec(rng, 4, 3);
                let t = render_doc(&spec, nr, version, fmt);
                write(&t, mtime);
                on_disk = Some(t);
                new_valid = Some((spec, nr, version));
            }
            8 | 9 => {
                // an edit that keeps the byte length of the document: only the root level changes (info <-> warn)
                let cur = render_doc(&active, rate, active_version, fmt);
                let mut flipped = active.clone();
                flipped.root_level = match active.root_level {
                    LevelFilter::Info => LevelFilter::Warn,
                    LevelFilter::Warn => LevelFilter::Info,
                    other => other,
                };
                let t = render_doc(&flipped, rate, active_version, fmt);
                if text == cur && Some(&text) == last_polled.as_ref() && flipped.root_level != active.root_level && t.len() == cur.len() {
                    ops.push("same-length-edit".into());
                    write(&t, mtime);
                    on_disk = Some(t);
                    new_valid = Some((flipped, rate, active_version));
                    rep.count("same_length_edits", 1);
                } else {
                    ops.push("poll-unchanged".into());
                }
            }
            10 => {
                // the file is replaced by one with an OLDER modification time (mv of a prepared file, cp -p, restored backup)
                ops.push("valid-change-with-older-mtime".into());
                version += 1;
                let spec = gen_spec(rng, 4, 3);
                let t = render_doc(&spec, rate, version, fmt);
                write(&t, mtime - Duration::from_secs(7200));
                on_disk = Some(t);
                new_valid = Some((spec, rate, version));
            }
            12 => {
                // only the appender tags change, i.e. text after " #" inside quoted values (not a comment!)
                ops.push("change-only-behind-a-hash-sign-inside-quoted-values".into());
                version += 1;
                let spec = active.clone();
                let t = render_doc(&spec, rate, version, fmt);
                write(&t, mtime);
                on_disk = Some(t);
                new_valid = Some((spec, rate, version));
            }
            14 => {
                // nothing changes but the length of a run of blanks inside the quoted appender tags
                ops.push("change-only-the-blanks-inside-quoted-values".into());
                version ^= 1 << 32;
                let spec = active.clone();
                let t = render_doc(&spec, rate, version, fmt);
                write(&t, mtime);
                on_disk = Some(t);
                new_valid = Some((spec, rate, version));
            }
            13 => {
                // a refresh rate that is not a duration: the document is broken, like any other unparsable value
                ops.push("misspelt-refresh-rate".into());
                let bad = render_doc(&active, Some(7), active_version, fmt).replace("7 seconds", "7 secconds");
                write(&bad, mtime);
                on_disk = Some(bad);
            }
            11 => {
                ops.push("tiny-broken-file".into());
                let broken = (*rng.pick(&["{", "[", "x", "{{", ":"])).to_owned();
                write(&broken, mtime);
                on_disk = Some(broken);
            }
            5 => {
                ops.push("unknown-root-key".into());
                let bad = if fmt == 0 { text.replacen('{', "{\"bogus_key\": 1,", 1) } else { format!("bogus_key: 1\n{}", text) };
                write(&bad, mtime);
                on_disk = Some(bad);
            }
            _ => {
                ops.push("valid-change".into());
                version += 1;
                let spec = gen_spec(rng, 4, 3);
                let t = render_doc(&spec, rate, version, fmt);
                write(&t, mtime);
                on_disk = Some(t);
                new_valid = Some((spec, rate, version));
            }
        }
        constructions.store(0, Ordering::SeqCst);
        let r = trap::catch(|| reloader.step(Duration::from_secs(cur_rate)));
        let r = match r {
            Err(p) => {
                fail(rep, &ops, "panic", format!("{} at {}", p.message, p.site()));
                return;
            }
            Ok(r) => r,
        };
        let built = constructions.load(Ordering::SeqCst);
        rep.count("reloader_polls", 1);
        match (&on_disk, &new_valid) {
            (None, _) => {
                rep.count("polls_with_missing_file", 1);
                if r.is_ok() {
                    fail(rep, &ops, "missing-file-not-reported", format!("step returned {:?}", r));
                    return;
                }
                if built != 0 {
                    fail(rep, &ops, "rebuilt-although-file-missing", format!("{} appenders constructed", built));
                    return;
                }
                // the next edit must write a file again
                text = last_polled.clone().unwrap_or(text);
                // re-create it right away so that later polls have something to read
                mtime += Duration::from_secs(1);
                write(&text, mtime);
                ops.push("recreate-same-content".into());
                let r2 = trap::catch(|| reloader.step(Duration::from_secs(cur_rate)));
                if !matches!(r2, Ok(Ok(Some(_)))) {
                    fail(rep, &ops, "did-not-keep-polling-after-deletion", format!("step after re-creating the file returned {:?}", r2.map(|x| x.map_err(|e| e.to_string()))));
                    return;
                }
            }
            (Some(disk), None) => {
                if Some(disk) == last_polled.as_ref() {
                    // unchanged or touched only
                    rep.count("polls_of_unchanged_file", 1);
                    match &r {
                        Ok(Some(d)) if *d == Duration::from_secs(cur_rate) => {}
                        other => {
                            fail(rep, &ops, "unchanged-file", format!("step returned {:?}, expected Ok(Some({}s))", other.as_ref().map_err(|e| e.to_string()), cur_rate));
                            return;
                        }
                    }
                    if built != 0 {
                        fail(rep, &ops, "reconfigured-for-unchanged-file", format!("{} appenders were constructed although the file content did not change", built));
                        return;
                    }
                } else {
                    // broken document
                    rep.count("polls_of_broken_file", 1);
                    if r.is_ok() {
                        fail(rep, &ops, "broken-file-not-reported", format!("step returned {:?}", r));
                        return;
                    }
                    if built != 0 {
                        fail(rep, &ops, "rebuilt-from-broken-file", format!("{} appenders constructed", built));
                        return;
                    }
                    last_polled = Some(disk.clone());
                    text = disk.clone();
                }
            }
            (Some(disk), Some((spec, nr, v))) => {
                rep.count("polls_of_changed_valid_file", 1);
                match &r {
                    Ok(got) if *got == nr.map(Duration::from_secs) => {}
                    other => {
                        fail(rep, &ops, "refresh-rate", format!("step returned {:?}, expected Ok({:?})", other.as_ref().map_err(|e| e.to_string()), nr));
                        return;
                    }
                }
                if built != spec.appenders.len() as u64 {
                    fail(rep, &ops, "construction-rounds", format!("{} appenders constructed, the new document declares {}", built, spec.appenders.len()));
                    return;
                }
                active = spec.clone();
                active_version = *v;
                rate = *nr;
                last_polled = Some(disk.clone());
                text = disk.clone();
            }
        }
        if !probe(rep, &ops, &active, active_version, rng) {
            return;
        }
    }
    rep.case(&format!("reloader|{}|{}", ops.join(" "), idx), true);
    if idx < 2 {
        rep.sample(json!({"kind": "reloader history", "edits": ops.join(" ")}));
    }
}

// ------------------------------------------------------------- end to end

/// Child: the real `init_file` with a short refresh rate; edits its own config file and
/// waits (bounded) for the reloader thread to pick the changes up.
pub fn child_e2e(args: &[String]) -> i32 {
    let dir = std::path::PathBuf::from(&args[0]);
    // variant 1: the configured path is a symbolic link that is re-pointed to publish a new version, and the
    // refresh rate goes from slow to fast; variant 2: as variant 0 with a dead stderr (parent's business)
    let variant: u32 = args.get(1).and_then(|s| s.parse().ok()).unwrap_or(0);
    if variant == 1 {
        return child_e2e_links(&dir);
    }
    let cfg = dir.join("log4rs.yaml");
    let doc = |file: &str, rate: &str| {
        format!("refresh_rate: {}\nappenders:\n  out:\n    kind: file\n    path: {}/{}\n    encoder: {{pattern: '{{m}}{{n}}'}}\nroot:\n  level: info\n  appenders: [out]\n",
            rate, dir.to_str().unwrap(), file)
    };
    std::fs::write(&cfg, doc("a.log", "50 ms")).unwrap();
    if let Err(e) = log4rs::init_file(&cfg, Default::default()) {
        println!("RESULT {}", json!({"error": format!("init_file: {:#}", e)}));
        return 0;
    }
    let read = |f: &str| std::fs::read_to_string(dir.join(f)).unwrap_or_default();
    let wait_for = |file: &str, marker: &str| -> Option<u32> {
        for poll in 0..1500 {
            log::info!("{}", marker);
            if read(file).contains(marker) {
                return Some(poll);
            }
            std::thread::sleep(Duration::from_millis(10));
        }
        None
    };
    let mut steps = vec![];
    let mut verdict = "ok".to_owned();
    // Every edit replaces the file atomically (write a sibling, set its time, rename it over the configuration):
    // the reloader thread never sees a half-written or momentarily empty file - an empty document is a valid
    // configuration without a refresh rate, after which the reloader rightly stops.
    let replace = |text: &str, secs: u64| {
        let tmp = dir.join("log4rs.yaml.new");
        std::fs::write(&tmp, text).unwrap();
        let f = std::fs::OpenOptions::new().write(true).open(&tmp).unwrap();
        let _ = f.set_modified(SystemTime::now() + Duration::from_secs(secs));
        drop(f);
        std::fs::rename(&tmp, &cfg).unwrap();
    };
    'run: {
        match wait_for("a.log", "m1") {
            Some(p) => steps.push(json!({"initial config active after polls": p})),
            None => {
                verdict = "initial configuration never became active".into();
                break 'run;
            }
        }
        replace(&doc("b.log", "50 ms"), 10);
        match wait_for("b.log", "m2") {
            Some(p) => steps.push(json!({"changed file applied after polls": p})),
            None => {
                verdict = "TIMEOUT changed file not applied within 1500 polls (300 refresh periods)".into();
                break 'run;
            }
        }
        if variant == 2 {
            // a document whose appender cannot be built (reported, dropped) before the one that does not parse at all
            replace(&doc("b.log", "50 ms").replace("kind: file", "kind: file\n    bogus_key: 1"), 15);
            std::thread::sleep(Duration::from_millis(300));
            replace(&doc("b.log", "50 ms"), 17);
            match wait_for("b.log", "m2b") {
                Some(p) => steps.push(json!({"after a document with a broken appender, the repaired one applied after polls": p})),
                None => {
                    verdict = "TIMEOUT repaired file not applied within 1500 polls after a document with a broken appender (reloader stopped polling?)".into();
                    break 'run;
                }
            }
        }
        // broken file: the last good configuration stays active
        replace("appenders: [[[ not yaml", 20);
        std::thread::sleep(Duration::from_millis(300));
        log::info!("m3");
        std::thread::sleep(Duration::from_millis(50));
        if !read("b.log").contains("m3") {
            verdict = "VIOLATION after a broken file the last good configuration is no longer active".into();
            break 'run;
        }
        steps.push(json!("broken file: last good configuration kept"));
        // repaired: must be picked up, i.e. the reloader kept polling
        replace(&doc("c.log", "50 ms"), 30);
        match wait_for("c.log", "m4") {
            Some(p) => steps.push(json!({"repaired file applied after polls": p})),
            None => {
                verdict = "TIMEOUT repaired file not applied within 1500 polls (300 refresh periods) (reloader stopped polling?)".into();
                break 'run;
            }
        }
    }
    println!("RESULT {}", json!({"verdict": verdict, "steps": steps}));
    0
}

/// Variant 1 of the end-to-end child.
fn child_e2e_links(dir: &std::path::Path) -> i32 {
    let link = dir.join("current.yaml");
    let doc = |file: &str, rate: &str| {
        format!("refresh_rate: {}\nappenders:\n  out:\n    kind: file\n    path: {}/{}\n    encoder: {{pattern: '{{m}}{{n}}'}}\nroot:\n  level: info\n  appenders: [out]\n",
            rate, dir.to_str().unwrap(), file)
    };
    let mut version = 0u32;
    // publishes a document as a new file and re-points the link to it atomically (ln -sfn), then removes the old file
    let mut publish = |text: &str| {
        version += 1;
        let new = dir.join(format!("v{}.yaml", version));
        std::fs::write(&new, text).unwrap();
        let f = std::fs::OpenOptions::new().write(true).open(&new).unwrap();
        let _ = f.set_modified(SystemTime::now() + Duration::from_secs(10 * version as u64));
        let old = std::fs::read_link(&link).ok();
        let tmp = dir.join("current.yaml.tmp");
        let _ = std::fs::remove_file(&tmp);
        std::os::unix::fs::symlink(&new, &tmp).unwrap();
        std::fs::rename(&tmp, &link).unwrap();
        if let Some(o) = old {
            let _ = std::fs::remove_file(o);
        }
    };
    publish(&doc("a.log", "3 seconds"));
    // the path is given relative to the working directory, as in most programs
    let _ = std::env::set_current_dir(dir);
    if let Err(e) = log4rs::init_file("current.yaml", Default::default()) {
        println!("RESULT {}", json!({"error": format!("init_file: {:#}", e)}));
        return 0;
    }
    let read = |f: &str| std::fs::read_to_string(dir.join(f)).unwrap_or_default();
    // polls (every 10 ms) until a record logged now arrives in `file`; elapsed milliseconds
    let wait_for = |file: &str, marker: &str| -> Option<u128> {
        let t0 = std::time::Instant::now();
        for _ in 0..3000 {
            log::info!("{}", marker);
            if read(file).contains(marker) {
                return Some(t0.elapsed().as_millis());
            }
            std::thread::sleep(Duration::from_millis(10));
        }
        None
    };
    let mut steps = vec![];
    let mut verdict = "ok".to_owned();
    'run: {
        if wait_for("a.log", "m1").is_none() {
            verdict = "initial configuration never became active".into();
            break 'run;
        }
        // new version behind the re-pointed link, with a fast refresh rate
        publish(&doc("b.log", "40 ms"));
        match wait_for("b.log", "m2") {
            Some(ms) => steps.push(json!({"link re-pointed (rate 3 s -> 40 ms): applied after ms": ms})),
            None => {
                verdict = "TIMEOUT configuration behind the re-pointed link not applied within 30 s".into();
                break 'run;
            }
        }
        // the new rate stays in force: two more versions, each published after a few idle polls
        let mut slow = vec![];
        for (k, file) in ["c.log", "d.log"].iter().enumerate() {
            std::thread::sleep(Duration::from_millis(200));
            publish(&doc(file, "40 ms"));
            match wait_for(file, &format!("m{}", 3 + k)) {
                Some(ms) => {
                    steps.push(json!({"next version under the 40 ms rate: applied after ms": ms}));
                    if ms > 1200 {
                        slow.push(ms);
                    }
                }
                None => {
                    verdict = "TIMEOUT a later version was not applied within 30 s".into();
                    break 'run;
                }
            }
        }
        if slow.len() == 2 {
            verdict = format!("VIOLATION the refresh rate of 40 ms is not in force: two consecutive versions took {:?} ms to be applied (the initial rate was 3 s)", slow);
        }
    }
    println!("RESULT {}", json!({"verdict": verdict, "steps": steps}));
    0
}

/// Runs the end-to-end child with its stderr connected to a pipe nobody reads from (writes fail with EPIPE).
fn run_child_with_dead_stderr(args: &[String]) -> std::io::Result<crate::childproc::ChildOut> {
    use std::os::fd::FromRawFd;
    let mut fds = [0 as libc::c_int; 2];
    if unsafe { libc::pipe(fds.as_mut_ptr()) } != 0 {
        return Err(std::io::Error::last_os_error());
    }
    let write_end = unsafe { std::os::fd::OwnedFd::from_raw_fd(fds[1]) };
    unsafe { libc::close(fds[0]) };
    let mut cmd = std::process::Command::new(crate::childproc::self_exe());
    cmd.arg("child").args(args).stdin(std::process::Stdio::null()).stdout(std::process::Stdio::piped()).stderr(std::process::Stdio::from(write_end));
    let mut child = cmd.spawn()?;
    drop(cmd);
    let mut so = child.stdout.take().unwrap();
    let t = std::thread::spawn(move || {
        let mut v = vec![];
        let _ = std::io::Read::read_to_end(&mut so, &mut v);
        v
    });
    let start = std::time::Instant::now();
    let mut timed_out = false;
    let status = loop {
        match child.try_wait()? {
            Some(st) => break st.code(),
            None => {
                if start.elapsed() > Duration::from_secs(600) {
                    let _ = child.kill();
                    let _ = child.wait();
                    timed_out = true;
                    break None;
                }
                std::thread::sleep(Duration::from_millis(5));
            }
        }
    };
    Ok(crate::childproc::ChildOut { status, stdout: t.join().unwrap_or_default(), stderr: vec![], timed_out })
}

fn e2e(rep: &mut Report, _rng: &mut Rng, idx: u64) {
    let sc = Scratch::new("c15e");
    let variant = idx % 3;
    rep.observe("end_to_end_variants", &variant.to_string());
    let args = vec!["c15e2e".to_owned(), sc.path.to_str().unwrap().to_owned(), variant.to_string()];
    let outcome = if variant == 2 { run_child_with_dead_stderr(&args) } else { run_child(&args, &[], Duration::from_secs(600)) };
    match outcome {
        Err(e) => rep.inconclusive(&format!("cannot spawn e2e child: {}", e)),
        Ok(o) if o.timed_out => rep.inconclusive("end-to-end reloader child timed out"),
        Ok(o) => {
            let text = String::from_utf8_lossy(&o.stdout);
            let Some(line) = text.lines().rev().find(|l| l.starts_with("RESULT ")) else {
                rep.inconclusive("end-to-end child produced no result");
                return;
            };
            let v: Value = serde_json::from_str(&line[7..]).unwrap_or(Value::Null);
            rep.case(&format!("e2e|{}", idx), true);
            let verdict = v["verdict"].as_str().unwrap_or("?").to_owned();
            if verdict == "ok" {
                rep.count("end_to_end_reloader_runs_ok", 1);
                if idx == 0 {
                    rep.sample(json!({"kind": "end-to-end init_file + reloader thread", "steps": v["steps"]}));
                }
            } else if verdict.starts_with("VIOLATION") || verdict.starts_with("TIMEOUT") && verdict.contains("not applied") {
                // a change that is never applied within 400 polls of a 50 ms reloader is reported;
                // the bound is generous (80x the refresh rate)
                rep.violation("C15:reloader:end-to-end", json!({"verdict": verdict, "steps": v["steps"]}));
            } else {
                rep.inconclusive(&format!("end-to-end child: {}", verdict));
            }
        }
    }
}

pub fn run(rep: &mut Report) {
    rep.rule = "(a) stress: logging threads and reconfiguring threads share one Logger; every configuration is a 'generation' with its own \
        tagged capturing appenders, shapes alternate between a 5-appender/3-logger table and a 1-appender table with different levels; \
        every set_config and every log call is stamped (invocation, return) from one atomic counter; offline: all deliveries of a \
        record carry one generation, equal the routing model of exactly that generation, and the generation is admissible (started \
        before the log returned, not definitely overwritten before it began - register linearizability); (b) re-entrancy: an appender \
        that calls set_config in the middle of the fan-out, at every position among 0-3 + 0-3 neighbours; (c) reloader on logical \
        time (verif_hooks stepping API, explicit mtimes): histories of valid change / poll unchanged / touch / syntax error / unknown \
        key / deletion / refresh-rate change or removal with construction counts, returned rate and routing probes after every step; \
        non-trivial: all; distinct = distinct run / history".to_owned();
    rep.assume("the two-load race window inside Logger::log is a few instructions wide: reach is by stress volume (and Miri seeds in the thorough tier), not by a hook");
    rep.assume("restoring exactly the previously applied text after a broken document may or may not rebuild the appenders (don't-care); routing must be right either way");
    let thorough = rep.tier == "thorough";
    let saved = std::env::var("L4V_JOBS").ok();
    std::env::set_var("L4V_JOBS", "2");
    let runs = if thorough { 32 } else { 6 };
    run_cases(rep, "stress", runs, |rep, rng, idx| {
        let heavy = idx % 2 == 0;
        stress(rep, rng, idx, if heavy { 6 } else { 3 }, if heavy { 2 } else { 1 }, 4_000_000, if thorough { 60_000 } else { 8_000 })
    });
    match saved {
        Some(v) => std::env::set_var("L4V_JOBS", v),
        None => std::env::remove_var("L4V_JOBS"),
    }
    run_cases(rep, "reentrant", 64, reentrant);
    run_cases(rep, "reloader", if thorough { 6000 } else { 1000 }, reloader_history);
    std::env::set_var("L4V_JOBS", "4");
    run_cases(rep, "e2e", if thorough { 9 } else { 3 }, e2e);
    std::env::remove_var("L4V_JOBS");
    if rep.tier == "thorough" && std::env::var("L4V_NO_MIRI").is_err() && std::env::var("L4V_SUBRUN").is_err() {
        crate::miri::run_miri_seeds(rep, "C15", 32);
        rep.require(rep.counter("miri_seeds_run") >= 32 / 2, "fewer than half of the Miri seeds produced a result");
    }
    rep.require(rep.counter("swaps_performed") > 200, "fewer than 200 reconfigurations during the stress runs");
    rep.require(rep.counter("distinct_generations_observed_by_log_calls") > 30, "log calls observed fewer than 30 distinct generations: swaps and logs did not overlap");
    rep.require(rep.counter("polls_of_unchanged_file") > 20 && rep.counter("polls_of_broken_file") > 20 && rep.counter("polls_of_changed_valid_file") > 50,
        "reloader histories did not cover unchanged / broken / changed files often enough");
}

/// Tiny stress for Miri: 2 logging threads, 1 swapping thread, a dozen generations.
pub fn miri_scenario(rep: &mut Report, rng: &mut Rng) {
    stress(rep, rng, 0, 2, 1, 14, 10);
}
