//! Run independent shards on worker threads and merge their reports.

use crate::report::Report;
use crate::rng::{subseed, Rng};

pub fn workers() -> usize {
    std::env::var("L4V_JOBS")
        .ok()
        .and_then(|s| s.parse().ok())
        .unwrap_or_else(|| {
            std::thread::available_parallelism()
                .map(|n| n.get())
                .unwrap_or(4)
        })
        .max(1)
}

/// Splits `total` cases over worker threads. `f(report, rng, case_index)` runs
/// one case; each case gets its own PRNG derived from (seed, label, index), so
/// a case replays independently of its shard.
pub fn run_cases<F>(rep: &mut Report, label: &str, total: u64, f: F)
where
    F: Fn(&mut Report, &mut Rng, u64) + Sync,
{
    let seed = rep.seed;
    if let Some((l, idx)) = rep.only.clone() {
        if l == label && idx < total {
            let mut rng = Rng::new(subseed(seed, label, idx));
            rep.cur_case = Some((label.to_owned(), idx));
            f(rep, &mut rng, idx);
            rep.cur_case = None;
        }
        return;
    }
    let n = workers().min(total.max(1) as usize);
    let shards: Vec<Report> = std::thread::scope(|s| {
        let mut hs = vec![];
        for w in 0..n {
            let mut local = rep.shard();
            let f = &f;
            let label = label.to_owned();
            hs.push(s.spawn(move || {
                let mut i = w as u64;
                while i < total {
                    let mut rng = Rng::new(subseed(seed, &label, i));
                    local.cur_case = Some((label.clone(), i));
                    f(&mut local, &mut rng, i);
                    i += n as u64;
                }
                local.cur_case = None;
                local
            }));
        }
        hs.into_iter()
            .map(|h| match h.join() {
                Ok(r) => r,
                Err(_) => {
                    let mut r = Report::new("", "", 0, "");
                    r.inconclusive("a harness worker thread panicked outside a trap");
                    r
                }
            })
            .collect()
    });
    for s in shards {
        rep.merge(s);
    }
}
