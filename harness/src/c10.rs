//! C10 — width/fill/alignment count characters, truncate then pad, never split UTF-8.

use crate::par::run_cases;
use crate::pattern_model::*;
use crate::report::Report;
use crate::rng::Rng;
use crate::trap;
use chrono::{Local, Utc};
use log4rs::encode::pattern::PatternEncoder;
use log4rs::encode::Encode;
use serde_json::json;

const TEXTS: [&str; 22] = [
    "", "a", "ab", "abc", "hello world", "é", "éé", "aé", "日本語", "𝄞", "𝄞𝄞𝄞", "a𝄞b", "x̂", "x̂ŷ", "e\u{301}e\u{301}",
    "naïve café", "→", "ab→cd←ef", "0123456789012", "ÀÁÂÃÄÅÆÇÈÉÊËÌÍ", "한국어 텍스트", "\u{1F600}\u{1F601}",
];

fn gen_spec_nodes(rng: &mut Rng, depth: usize) -> Vec<Node> {
    let n = 1 + rng.usize_below(3);
    (0..n)
        .map(|_| {
            let spec = if rng.chance(5, 6) { Some(gen_spec(rng)) } else { None };
            let kind = match rng.below(if depth < 3 { 10 } else { 5 }) {
                0 | 1 | 2 => Kind::Message,
                3 => Kind::Target,
                4 => Kind::Level,
                5 => Kind::Highlight(gen_spec_nodes(rng, depth + 1)),
                // groups that render in one build profile only: the width law applies to their (possibly empty) text
                8 => Kind::Debug(gen_spec_nodes(rng, depth + 1)),
                9 => Kind::Release(gen_spec_nodes(rng, depth + 1)),
                _ => Kind::Group(gen_spec_nodes(rng, depth + 1)),
            };
            if rng.chance(1, 6) {
                Node::Text((*rng.pick(&TEXTS[..])).to_owned())
            } else {
                Node::Fmt(kind, spec)
            }
        })
        .collect()
}

fn scalar_budget(nodes: &[Node]) -> Option<usize> {
    // sum of top-level maxima, when every top-level node has one
    let mut total = 0usize;
    for n in nodes {
        match n {
            Node::Fmt(_, Some(Spec { max: Some(m), .. })) => total += m,
            _ => return None,
        }
    }
    Some(total)
}

pub fn run(rep: &mut Report) {
    crate::c09::set_test_zone();
    rep.rule = "patterns of 1-3 formatters (message, target, level, nested groups / highlights to depth 3) nearly all carrying a \
        spec with m,M in {0,1,2,3,5,8,13,40} (m<=M), fills {space ~ 0 é € 𝄞 } : < > { .}, both alignments; texts: empty, ASCII, \
        2/3/4-byte code points, combining sequences, lengths around m and M; every case is encoded under 4 chunkings (whole \
        writes / two random short-write sinks that split inside code points, one of which also fails a quarter of its calls with EINTR / message Display in several pieces) which must all \
        agree with the reference pad(cut(text,M),m); non-trivial = some spec has a width; distinct = (pattern, message, target)".to_owned();
    rep.assume("lengths are counted in Unicode scalar values, as the statement says (combining marks count separately)");
    let n = if rep.tier == "thorough" { 2_000_000 } else { 150_000 };
    run_cases(rep, "spec", n, |rep, rng, idx| {
        let nodes = gen_spec_nodes(rng, 0);
        let pattern = print(&nodes, rng, false);
        let mut ctx = gen_ctx(rng, &[]);
        ctx.message = (0..1 + rng.usize_below(3)).map(|_| *rng.pick(&TEXTS[..])).collect::<Vec<_>>().join("");
        if rng.chance(1, 8) {
            // a compile-time literal message (`args().as_str()` is Some): see `with_record`
            ctx.message = (*rng.pick(&LITERALS[..])).to_owned();
        }
        ctx.target = (*rng.pick(&TEXTS[..])).to_owned();
        let has_width = pattern.contains(':');
        rep.case(&format!("{}|{}|{}", pattern, ctx.message, ctx.target), has_width);
        let enc = match trap::catch(|| PatternEncoder::new(&pattern)) {
            Ok(e) => e,
            Err(p) => {
                rep.violation(&format!("C10:panic:new:{}", p.site()), json!({"pattern": pattern, "panic": p.message}));
                return;
            }
        };
        let now = Utc::now();
        let expected = render(&nodes, &ctx, &now.with_timezone(&Local), &now);
        let budget = scalar_budget(&nodes);
        if rng.chance(1, 8) {
            let mut failing = CapW::new();
            failing.budget = Some(rng.usize_below(20));
            let mut other = ctx.clone();
            other.message = "THIS-FAILED-RECORD-MUST-NOT-SHOW-UP".into();
            let p2 = vec![other.message.clone()];
            let _ = trap::catch(|| with_record(&other, &p2, |rec| enc.encode(&mut failing, rec)));
        }
        if rng.chance(1, 8) {
            encode_a_record_that_panics(&enc, &ctx);
        }
        for chunking in 0..4 {
            let pieces = if chunking == 3 { split_pieces(&ctx.message, rng) } else { vec![ctx.message.clone()] };
            let mut w = if chunking == 0 { CapW::new() } else { CapW::short(rng.next_u64()) };
            // a sink that now and then reports EINTR: `write_all` retries, nothing may be charged twice
            w.interrupts = chunking == 2;
            let r = trap::catch(|| with_record(&ctx, &pieces, |rec| enc.encode(&mut w, rec)));
            let d = |what: &str, got: &str| json!({"pattern": pattern, "message": ctx.message, "target": ctx.target,
                "level": ctx.level.to_string(), "chunking": chunking, "what": what,
                "expected_text": text_of(&expected), "got_text": got});
            match r {
                Err(p) => {
                    rep.violation(&format!("C10:panic:encode:{}", if p.in_repo() { p.site() } else { "std".into() }), d(&p.message, ""));
                    continue;
                }
                Ok(Err(e)) => {
                    rep.violation("C10:encode-returned-error", d(&e.to_string(), ""));
                    continue;
                }
                Ok(Ok(())) => {}
            }
            rep.count("encodings_compared", 1);
            rep.count("sink_write_calls", w.write_calls as i64);
            rep.count("sink_writes_interrupted", w.interrupted as i64);
            let got = match w.events() {
                Ok(g) => g,
                Err(_) => {
                    rep.violation("C10:invalid-utf8", d("output is not valid UTF-8 (a code point was split)", &String::from_utf8_lossy(&w.bytes)));
                    continue;
                }
            };
            if let Some(b) = budget {
                let n = got.iter().filter(|e| matches!(e, Ev::Ch(_))).count();
                if n > b {
                    rep.violation("C10:more-than-max-characters", d(&format!("{} characters emitted, maxima allow {}", n, b), &text_of(&got)));
                    continue;
                }
            }
            if text_of(&got) != text_of(&expected) {
                rep.violation(if chunking == 0 { "C10:width-law" } else { "C10:width-law-chunking-dependent" }, d("text differs", &text_of(&got)));
            } else if got != expected {
                rep.violation("C10:style-position", d(&format!("style events differ: expected {:?} got {:?}", expected, got), &text_of(&got)));
            }
        }
        if idx < 3 {
            rep.sample(json!({"pattern": pattern, "message": ctx.message, "expected": text_of(&expected)}));
        }
    });
    // every maximum width 1..=400 against right-aligned multi-byte texts of 400 characters (a width that falls on
    // the character straddling some internal block boundary)
    run_cases(rep, "sweep", 3 * 400 * 2, |rep, rng, idx| {
        let unit = ["é", "日", "𝄞"][(idx % 3) as usize];
        let m = 1 + ((idx / 3) % 400) as usize;
        let nested = (idx / 1200) % 2 == 1;
        let text: String = unit.repeat(400);
        let nodes = if nested {
            vec![Node::Fmt(Kind::Group(vec![Node::Fmt(Kind::Message, Some(Spec { fill: None, right: Some(true), min: Some(2), max: None }))]),
                Some(Spec { fill: None, right: None, min: None, max: Some(m) }))]
        } else {
            vec![Node::Fmt(Kind::Message, Some(Spec { fill: None, right: Some(true), min: Some(m.min(3)), max: Some(m) }))]
        };
        let pattern = print(&nodes, rng, false);
        let mut ctx = gen_ctx(rng, &[]);
        ctx.message = text;
        rep.case_enumerated(true);
        rep.count("max_width_sweep_cases", 1);
        let Ok(enc) = trap::catch(|| PatternEncoder::new(&pattern)) else { return };
        let now = Utc::now();
        let expected = text_of(&render(&nodes, &ctx, &now.with_timezone(&Local), &now));
        let pieces = vec![ctx.message.clone()];
        let mut w = CapW::new();
        match trap::catch(|| with_record(&ctx, &pieces, |rec| enc.encode(&mut w, rec))) {
            Ok(Ok(())) => {
                rep.count("encodings_compared", 1);
                match String::from_utf8(w.bytes.clone()) {
                    Err(e) => rep.violation("C10:invalid-utf8", json!({"pattern": pattern, "message": format!("{} x 400", unit), "what": e.to_string()})),
                    Ok(got) => {
                        if got != expected {
                            rep.violation("C10:width-law:long-text", json!({"pattern": pattern, "message": format!("{} x 400", unit),
                                "expected_characters": expected.chars().count(), "got_characters": got.chars().count()}));
                        }
                    }
                }
            }
            Ok(Err(e)) => rep.violation("C10:encode-returned-error", json!({"pattern": pattern, "error": e.to_string()})),
            Err(p) => rep.violation(&format!("C10:panic:encode:{}", if p.in_repo() { p.site() } else { "std".into() }), json!({"pattern": pattern, "panic": p.message})),
        }
    });
    // texts of thousands of characters arriving in one piece, widths beyond them
    run_cases(rep, "big", 600, |rep, rng, idx| {
        let len = *rng.pick(&[255usize, 256, 257, 2047, 2048, 2049, 2100, 2500, 4095, 4096, 4097, 6000]);
        let unit = *rng.pick(&["a", "é", "日", "𝄞", "aé"]);
        let mut text = String::new();
        while text.chars().count() < len {
            text.push_str(unit);
        }
        let min = match rng.below(4) {
            0 => None,
            1 => Some(len + 3),
            2 => Some(len + 1 + rng.usize_below(3000)),
            _ => Some(len.saturating_sub(5)),
        };
        let max = match rng.below(4) {
            0 | 1 => None,
            2 => Some(len + 4000),
            _ => Some(min.unwrap_or(0).max(len.saturating_sub(1 + rng.usize_below(300)))),
        };
        let spec = Spec { fill: if rng.chance(1, 2) { Some(*rng.pick(&['*', 'é', '─'])) } else { None }, right: match rng.below(3) { 0 => None, 1 => Some(false), _ => Some(true) }, min, max };
        if spec.fill.is_none() && spec.right.is_none() && spec.min.is_none() && spec.max.is_none() {
            return;
        }
        let nodes = vec![Node::Text("[".into()), Node::Fmt(Kind::Message, Some(spec)), Node::Text("]".into())];
        let pattern = print(&nodes, rng, false);
        let mut ctx = gen_ctx(rng, &[]);
        ctx.message = text;
        rep.case(&format!("big|{}|{}|{}", pattern, unit, len), true);
        let enc = match trap::catch(|| PatternEncoder::new(&pattern)) {
            Ok(e) => e,
            Err(p) => {
                rep.violation(&format!("C10:panic:new:{}", p.site()), json!({"pattern": pattern, "panic": p.message}));
                return;
            }
        };
        let now = Utc::now();
        let expected = text_of(&render(&nodes, &ctx, &now.with_timezone(&Local), &now));
        let pieces = vec![ctx.message.clone()];
        let mut w = CapW::new();
        let d = |what: &str, got: &str| json!({"pattern": pattern, "message": format!("{} x {} characters", unit, len), "what": what,
            "expected_characters": expected.chars().count(), "got_characters": got.chars().count()});
        match trap::catch(|| with_record(&ctx, &pieces, |rec| enc.encode(&mut w, rec))) {
            Err(p) => rep.violation(&format!("C10:panic:encode:{}", if p.in_repo() { p.site() } else { "std".into() }), d(&p.message, "")),
            Ok(Err(e)) => rep.violation("C10:encode-returned-error", d(&e.to_string(), "")),
            Ok(Ok(())) => {
                rep.count("encodings_compared", 1);
                rep.count("long_single_piece_texts", 1);
                match String::from_utf8(w.bytes.clone()) {
                    Err(_) => rep.violation("C10:invalid-utf8", d("output is not valid UTF-8", "")),
                    Ok(got) => {
                        if got != expected {
                            rep.violation("C10:width-law:long-text", d("text differs", &got));
                        }
                    }
                }
            }
        }
        let _ = idx;
    });
    rep.require(rep.counter("encodings_compared") > 1000, "fewer than 1000 encodings compared");
}
