//! C14 — config files mean what they say in every format; loading is total and lossy.

use crate::fsutil::Scratch;
use crate::par::run_cases;
use crate::report::Report;
use crate::rng::Rng;
use crate::routing::{gen_name, probe_targets, ConfSpec, LoggerSpec, FILTERS, LEVELS};
use crate::trap;
use log::{Level, LevelFilter, Record};
use log4rs::append::console::ConsoleAppender;
use log4rs::append::file::FileAppender;
use log4rs::append::rolling_file::policy::compound::roll::delete::DeleteRoller;
use log4rs::append::rolling_file::policy::compound::roll::fixed_window::FixedWindowRoller;
use log4rs::append::rolling_file::policy::compound::roll::Roll;
use log4rs::append::rolling_file::policy::compound::trigger::onstartup::OnStartUpTrigger;
use log4rs::append::rolling_file::policy::compound::trigger::size::SizeTrigger;
use log4rs::append::rolling_file::policy::compound::trigger::Trigger;
use log4rs::append::rolling_file::policy::compound::CompoundPolicy;
use log4rs::append::rolling_file::RollingFileAppender;
use log4rs::append::Append;
use log4rs::config::{Appender, Config, Deserializers, Logger, RawConfig, Root};
use log4rs::encode::json::JsonEncoder;
use log4rs::encode::pattern::PatternEncoder;
use log4rs::encode::Encode;
use log4rs::filter::threshold::ThresholdFilter;
use serde_json::{json, Map, Value};
use std::collections::BTreeMap;
use std::path::{Path, PathBuf};

// ------------------------------------------------------------ logical config

#[derive(Clone, Debug, PartialEq)]
enum Enc {
    /// encoder section omitted entirely
    Omitted,
    /// `encoder: {pattern: ..}` (kind defaulted) or with `kind: pattern`
    Pattern { pattern: Option<usize>, kind_given: bool },
    Json,
}

const PATTERNS: [&str; 3] = ["{l}|{t}|{m}{n}", "{m} <{l}> {t}{n}", "{h({l})}:{t}:{m}{n}"];

#[derive(Clone, Debug, PartialEq)]
enum Trig {
    Size { limit: u64, as_string: bool },
    OnStartUp { min_size: Option<u64> },
    Time,
}

#[derive(Clone, Debug, PartialEq)]
enum Rol {
    Delete,
    Window { count: u32, base: Option<u32> },
}

#[derive(Clone, Debug, PartialEq)]
enum Kind {
    Console { stderr: Option<bool> },
    File { append: Option<bool> },
    Rolling { append: Option<bool>, policy_kind_given: bool, trig: Trig, rol: Rol },
}

#[derive(Clone, Debug, PartialEq)]
struct AppSpec {
    name: String,
    kind: Kind,
    enc: Enc,
    thresholds: Vec<LevelFilter>,
}

#[derive(Clone, Debug)]
struct Logical {
    apps: Vec<AppSpec>,
    routing: ConfSpec,
    root_level_given: bool,
    additive_given: Vec<bool>,
    refresh: Option<u64>,
}

fn gen_logical(rng: &mut Rng) -> Logical {
    let n = 1 + rng.usize_below(4);
    let mut apps = vec![];
    for i in 0..n {
        let enc = match rng.below(6) {
            0 => Enc::Omitted,
            1 => Enc::Json,
            2 => Enc::Pattern { pattern: None, kind_given: true },
            _ => Enc::Pattern { pattern: Some(rng.usize_below(PATTERNS.len())), kind_given: rng.chance(1, 2) },
        };
        let opt_bool = |rng: &mut Rng| match rng.below(3) {
            0 => None,
            1 => Some(true),
            _ => Some(false),
        };
        let kind = match rng.below(7) {
            0 => Kind::Console { stderr: opt_bool(rng) },
            1 | 2 | 3 => Kind::File { append: opt_bool(rng) },
            _ => Kind::Rolling {
                append: opt_bool(rng),
                policy_kind_given: rng.chance(1, 2),
                trig: match rng.below(5) {
                    0 => Trig::OnStartUp { min_size: if rng.chance(1, 2) { None } else { Some(*rng.pick(&[0u64, 1, 50])) } },
                    1 => Trig::Time,
                    _ => Trig::Size { limit: *rng.pick(&[60u64, 150, 1024, 2048]), as_string: rng.chance(1, 2) },
                },
                rol: if rng.chance(1, 4) { Rol::Delete } else { Rol::Window { count: *rng.pick(&[1u32, 2, 3]), base: if rng.chance(1, 2) { None } else { Some(*rng.pick(&[0u32, 1, 5])) } } },
            },
        };
        apps.push(AppSpec {
            name: format!("A{}", i),
            kind,
            enc,
            thresholds: (0..*rng.pick(&[0usize, 0, 0, 1, 1, 2, 3])).map(|_| *rng.pick(&FILTERS)).collect(),
        });
    }
    let names: Vec<String> = apps.iter().map(|a| a.name.clone()).collect();
    let pick = |rng: &mut Rng| -> Vec<String> {
        let k = rng.usize_below(3);
        (0..k).map(|_| rng.pick(&names).clone()).collect()
    };
    let root_appenders = pick(rng);
    let mut loggers: Vec<LoggerSpec> = vec![];
    for _ in 0..rng.usize_below(4) {
        let name = if rng.chance(1, 6) {
            // names that stress each format's string syntax: characters outside the BMP (a JSON writer that
            // emits ASCII spells them as surrogate-pair escapes) and a key longer than 1024 bytes
            match rng.below(3) {
                0 => "a::\u{1F600}".to_owned(),
                1 => "\u{1D518}\u{1D52B}::b".to_owned(),
                _ => format!("a::{}", "x".repeat(1100)),
            }
        } else if !loggers.is_empty() && rng.chance(1, 2) {
            format!("{}::{}", rng.pick(&loggers).name, rng.pick(&["a", "b"]))
        } else {
            gen_name(rng, 3)
        };
        if loggers.iter().any(|l| l.name == name) {
            continue;
        }
        loggers.push(LoggerSpec { name, level: *rng.pick(&FILTERS), additive: rng.chance(2, 3), appenders: pick(rng) });
    }
    let root_level_given = rng.chance(2, 3);
    let additive_given = loggers.iter().map(|l| !l.additive || rng.chance(1, 2)).collect();
    Logical {
        routing: ConfSpec {
            appenders: names,
            // root level defaults to debug when the key is omitted
            root_level: if root_level_given { *rng.pick(&FILTERS) } else { LevelFilter::Debug },
            root_appenders,
            loggers,
        },
        apps,
        root_level_given,
        additive_given,
        refresh: if rng.chance(1, 3) { Some(*rng.pick(&[5u64, 30, 90])) } else { None },
    }
}

fn lvl(l: LevelFilter) -> String {
    l.to_string().to_lowercase()
}

fn app_doc(a: &AppSpec, dir: &str) -> Value {
    let mut m = Map::new();
    match &a.kind {
        Kind::Console { stderr } => {
            m.insert("kind".into(), json!("console"));
            // never actually print from the harness process: it has no terminal
            m.insert("tty_only".into(), json!(true));
            if let Some(e) = stderr {
                m.insert("target".into(), json!(if *e { "stderr" } else { "stdout" }));
            }
        }
        Kind::File { append } => {
            m.insert("kind".into(), json!("file"));
            m.insert("path".into(), json!(format!("{}/{}.log", dir, a.name)));
            if let Some(x) = append {
                m.insert("append".into(), json!(x));
            }
        }
        Kind::Rolling { append, policy_kind_given, trig, rol } => {
            m.insert("kind".into(), json!("rolling_file"));
            m.insert("path".into(), json!(format!("{}/{}.log", dir, a.name)));
            if let Some(x) = append {
                m.insert("append".into(), json!(x));
            }
            let mut p = Map::new();
            if *policy_kind_given {
                p.insert("kind".into(), json!("compound"));
            }
            p.insert("trigger".into(), match trig {
                Trig::Size { limit, as_string } => json!({"kind": "size", "limit": if *as_string { json!(format!("{} b", limit)) } else { json!(limit) }}),
                Trig::OnStartUp { min_size } => match min_size {
                    Some(s) => json!({"kind": "onstartup", "min_size": s}),
                    None => json!({"kind": "onstartup"}),
                },
                Trig::Time => json!({"kind": "time", "interval": "1 day"}),
            });
            p.insert("roller".into(), match rol {
                Rol::Delete => json!({"kind": "delete"}),
                Rol::Window { count, base } => {
                    let mut r = Map::new();
                    r.insert("kind".into(), json!("fixed_window"));
                    r.insert("pattern".into(), json!(format!("{}/{}.{{}}.log", dir, a.name)));
                    r.insert("count".into(), json!(count));
                    if let Some(b) = base {
                        r.insert("base".into(), json!(b));
                    }
                    Value::Object(r)
                }
            });
            m.insert("policy".into(), Value::Object(p));
        }
    }
    match &a.enc {
        Enc::Omitted => {}
        Enc::Json => {
            m.insert("encoder".into(), json!({"kind": "json"}));
        }
        Enc::Pattern { pattern, kind_given } => {
            let mut e = Map::new();
            if *kind_given {
                e.insert("kind".into(), json!("pattern"));
            }
            if let Some(p) = pattern {
                e.insert("pattern".into(), json!(PATTERNS[*p]));
            }
            m.insert("encoder".into(), Value::Object(e));
        }
    }
    if !a.thresholds.is_empty() {
        m.insert("filters".into(), json!(a.thresholds.iter().map(|t| json!({"kind": "threshold", "level": lvl(*t)})).collect::<Vec<_>>()));
    }
    Value::Object(m)
}

fn document(l: &Logical, dir: &str) -> Value {
    let mut doc = Map::new();
    if let Some(r) = l.refresh {
        doc.insert("refresh_rate".into(), json!(format!("{} seconds", r)));
    }
    let mut apps = Map::new();
    for a in &l.apps {
        apps.insert(a.name.clone(), app_doc(a, dir));
    }
    doc.insert("appenders".into(), Value::Object(apps));
    let mut root = Map::new();
    if l.root_level_given {
        root.insert("level".into(), json!(lvl(l.routing.root_level)));
    }
    if !l.routing.root_appenders.is_empty() || l.root_level_given {
        root.insert("appenders".into(), json!(l.routing.root_appenders));
    }
    if !root.is_empty() {
        doc.insert("root".into(), Value::Object(root));
    }
    let mut loggers = Map::new();
    for (i, lg) in l.routing.loggers.iter().enumerate() {
        let mut m = Map::new();
        m.insert("level".into(), json!(lvl(lg.level)));
        if !lg.appenders.is_empty() {
            m.insert("appenders".into(), json!(lg.appenders));
        }
        if l.additive_given[i] {
            m.insert("additive".into(), json!(lg.additive));
        }
        loggers.insert(lg.name.clone(), Value::Object(m));
    }
    if !loggers.is_empty() {
        doc.insert("loggers".into(), Value::Object(loggers));
    }
    Value::Object(doc)
}

/// `<extension>[:<writing style>]`; the first three are the plain emitters of the three formats.
const FORMATS: [&str; 7] = ["yaml", "json", "toml", "yml", "json:ascii", "json:tabs", "yaml:flow"];

fn ext(fmt: &str) -> &str {
    fmt.split(':').next().unwrap()
}

/// JSON as an ASCII-only writer emits it: everything beyond ASCII as \uXXXX, characters outside the BMP as
/// surrogate pairs, and the solidus escaped (all legal JSON).
fn json_ascii(doc: &Value) -> String {
    let text = serde_json::to_string(doc).unwrap();
    let mut out = String::new();
    for c in text.chars() {
        if c == '/' {
            out.push_str("\\/");
        } else if c.is_ascii() {
            out.push(c);
        } else {
            let mut buf = [0u16; 2];
            for u in c.encode_utf16(&mut buf) {
                out.push_str(&format!("\\u{:04X}", u));
            }
        }
    }
    out
}

/// Optional keys that are left out may as well be written with an explicit null (`key: ~`, `"key": null`):
/// `append` of file and rolling_file appenders, `target` of console appenders, `encoder` of all three.
fn with_explicit_nulls(doc: &Value) -> Value {
    let mut d = doc.clone();
    if let Some(apps) = d.get_mut("appenders").and_then(|a| a.as_object_mut()) {
        for (_, a) in apps.iter_mut() {
            let kind = a.get("kind").and_then(|k| k.as_str()).unwrap_or("").to_owned();
            if let Some(m) = a.as_object_mut() {
                let keys: &[&str] = match kind.as_str() {
                    "console" => &["target", "encoder"],
                    "file" | "rolling_file" => &["append", "encoder"],
                    _ => &[],
                };
                for k in keys {
                    if !m.contains_key(*k) {
                        m.insert((*k).to_owned(), Value::Null);
                    }
                }
            }
        }
    }
    d
}

fn serialize(doc: &Value, fmt: &str) -> Result<String, String> {
    match fmt {
        "json" => Ok(serde_json::to_string_pretty(doc).unwrap()),
        "json:ascii" => Ok(json_ascii(doc)),
        // tab-indented, CRLF line ends, byte-order mark free: still JSON
        "json:tabs" => {
            use serde::Serialize;
            let mut buf = vec![];
            let mut ser = serde_json::Serializer::with_formatter(&mut buf, serde_json::ser::PrettyFormatter::with_indent(b"\t"));
            doc.serialize(&mut ser).unwrap();
            Ok(String::from_utf8(buf).unwrap().replace('\n', "\r\n"))
        }
        // flow style: a YAML document written with braces and brackets only
        "yaml:flow" => Ok(serde_json::to_string_pretty(doc).unwrap()),
        "toml" => toml::to_string(doc).map_err(|e| format!("harness toml emitter: {}", e)),
        _ => serde_yaml::to_string(doc).map_err(|e| format!("harness yaml emitter: {}", e)),
    }
}

// ----------------------------------------------------------------- driving

/// (level, target, message) recovered from one output line of an appender.
type Triple = (String, String, String);

fn parse_line(a: &AppSpec, line: &str) -> Result<Triple, String> {
    match &a.enc {
        Enc::Json => {
            let v: Value = serde_json::from_str(line).map_err(|e| format!("json line: {}", e))?;
            Ok((v["level"].as_str().unwrap_or("?").into(), v["target"].as_str().unwrap_or("?").into(), v["message"].as_str().unwrap_or("?").into()))
        }
        Enc::Omitted | Enc::Pattern { pattern: None, .. } => {
            // default pattern "{d} {l} {t} - {m}{n}"
            let (date, rest) = line.split_once(' ').ok_or("default pattern: no date")?;
            chrono::DateTime::parse_from_rfc3339(date).map_err(|_| format!("default pattern: `{}` is not the default date format", date))?;
            let (l, rest) = rest.split_once(' ').ok_or("default pattern: no level")?;
            let (t, m) = rest.split_once(" - ").ok_or("default pattern: no ` - `")?;
            Ok((l.into(), t.into(), m.into()))
        }
        Enc::Pattern { pattern: Some(p), .. } => match p {
            0 => {
                let v: Vec<&str> = line.splitn(3, '|').collect();
                if v.len() != 3 {
                    return Err("pattern 0: fields".into());
                }
                Ok((v[0].into(), v[1].into(), v[2].into()))
            }
            1 => {
                let (m, rest) = line.split_once(" <").ok_or("pattern 1")?;
                let (l, t) = rest.split_once("> ").ok_or("pattern 1")?;
                Ok((l.into(), t.into(), m.into()))
            }
            _ => {
                let v: Vec<&str> = line.splitn(2, ':').collect();
                if v.len() != 2 {
                    return Err("pattern 2".into());
                }
                let (t, m) = v[1].rsplit_once(':').ok_or("pattern 2")?;
                Ok((v[0].into(), t.into(), m.into()))
            }
        },
    }
}

fn line_len(a: &AppSpec, t: &Triple) -> Option<usize> {
    // exact encoded size, needed to predict size-triggered rotations (deterministic encoders only)
    match &a.enc {
        Enc::Pattern { pattern: Some(p), .. } => Some(match p {
            0 => t.0.len() + 1 + t.1.len() + 1 + t.2.len() + 1,
            1 => t.2.len() + 2 + t.0.len() + 2 + t.1.len() + 1,
            _ => t.0.len() + 1 + t.1.len() + 1 + t.2.len() + 1,
        }),
        _ => None,
    }
}

struct Outcome {
    /// per appender: the triples found in its files, oldest first (archives then active)
    lines: BTreeMap<String, Vec<Triple>>,
    /// per appender: file name -> number of lines
    files: BTreeMap<String, BTreeMap<String, usize>>,
    fingerprint: BTreeMap<String, String>,
}

const PRE: &str = "OLD|old|pre-existing line\n";

fn normalize_debug(s: &str, dir: &str) -> String {
    let mut s = s.replace(dir, "<DIR>");
    // the scheduled instant of a time trigger depends on the clock
    while let Some(i) = s.find("next_roll_time:") {
        let rest = &s[i..];
        let mut depth = 0i32;
        let mut end = rest.len();
        for (k, c) in rest.char_indices() {
            match c {
                '{' | '(' => depth += 1,
                '}' | ')' => {
                    depth -= 1;
                    if depth <= 0 {
                        end = k + 1;
                        break;
                    }
                }
                _ => {}
            }
        }
        s.replace_range(i..i + end, "next_roll_time=<instant>");
    }
    s
}

/// Installs `cfg` in a private logger, logs the probe set and reads the files back.
fn drive(l: &Logical, cfg: Config, dir: &Path, probes: &[(String, Level)], present: &[String]) -> Result<Outcome, (String, String)> {
    let mut fingerprint = BTreeMap::new();
    for a in cfg.appenders() {
        fingerprint.insert(a.name().to_owned(), normalize_debug(&format!("{:?} filters={:?}", a.appender(), a.filters()), dir.to_str().unwrap()));
    }
    let logger = trap::catch(|| log4rs::Logger::new(cfg)).map_err(|p| (format!("panic:Logger::new:{}", p.site()), p.message))?;
    for (i, (t, lv)) in probes.iter().enumerate() {
        trap::catch(|| log::Log::log(&logger, &Record::builder().target(t).level(*lv).args(format_args!("m{}", i)).build()))
            .map_err(|p| (format!("panic:log:{}", p.site()), p.message))?;
    }
    drop(logger);
    let mut lines = BTreeMap::new();
    let mut files = BTreeMap::new();
    for a in &l.apps {
        if !present.contains(&a.name) || matches!(a.kind, Kind::Console { .. }) {
            continue;
        }
        // archives from the highest index down, then the active file
        let mut names: Vec<(i64, PathBuf)> = vec![];
        for e in std::fs::read_dir(dir).map_err(|e| ("harness".to_owned(), e.to_string()))? {
            let p = e.unwrap().path();
            let f = p.file_name().unwrap().to_string_lossy().into_owned();
            if f == format!("{}.log", a.name) {
                names.push((-1, p));
            } else if let Some(mid) = f.strip_prefix(&format!("{}.", a.name)).and_then(|r| r.strip_suffix(".log")) {
                if let Ok(i) = mid.parse::<i64>() {
                    names.push((i, p));
                }
            }
        }
        names.sort_by_key(|(i, _)| -*i);
        let mut v = vec![];
        let mut fm = BTreeMap::new();
        for (_, p) in names {
            let text = std::fs::read_to_string(&p).unwrap_or_default();
            let mut n = 0;
            for line in text.lines() {
                n += 1;
                if line == PRE.trim_end() {
                    v.push(("OLD".to_owned(), "old".to_owned(), "pre-existing line".to_owned()));
                    continue;
                }
                v.push(parse_line(a, line).map_err(|e| ("unparseable-output-line".to_owned(), format!("appender {}: {} in `{}`", a.name, e, line)))?);
            }
            fm.insert(p.file_name().unwrap().to_string_lossy().into_owned(), n);
        }
        lines.insert(a.name.clone(), v);
        files.insert(a.name.clone(), fm);
    }
    Ok(Outcome { lines, files, fingerprint })
}

fn prepopulate(l: &Logical, dir: &Path) {
    for a in &l.apps {
        if matches!(a.kind, Kind::File { .. } | Kind::Rolling { .. }) {
            std::fs::write(dir.join(format!("{}.log", a.name)), PRE).unwrap();
        }
    }
}

/// What each appender must contain according to the statement.
fn expected_lines(l: &Logical, probes: &[(String, Level)], present: &[String]) -> BTreeMap<String, Vec<Triple>> {
    let mut spec = l.routing.clone();
    // lossy: references to dropped appenders are dropped too
    spec.root_appenders.retain(|a| present.contains(a));
    for lg in &mut spec.loggers {
        lg.appenders.retain(|a| present.contains(a));
    }
    let mut out: BTreeMap<String, Vec<Triple>> = BTreeMap::new();
    for a in &l.apps {
        if present.contains(&a.name) && !matches!(a.kind, Kind::Console { .. }) {
            let keeps_old = match &a.kind {
                Kind::File { append } | Kind::Rolling { append, .. } => append.unwrap_or(true),
                _ => false,
            };
            out.insert(a.name.clone(), if keeps_old { vec![("OLD".into(), "old".into(), "pre-existing line".into())] } else { vec![] });
        }
    }
    for (i, (t, lv)) in probes.iter().enumerate() {
        for name in spec.expected(t, *lv) {
            let a = l.apps.iter().find(|a| a.name == name).unwrap();
            if a.thresholds.iter().any(|th| *lv > *th) {
                continue;
            }
            if let Some(v) = out.get_mut(&name) {
                v.push((lv.to_string(), t.clone(), format!("m{}", i)));
            }
        }
    }
    out
}

/// Exact file layout for rolling appenders with deterministic encoders.
fn expected_layout(a: &AppSpec, all: &[Triple]) -> Option<BTreeMap<String, usize>> {
    let Kind::Rolling { append, trig, rol, .. } = &a.kind else { return None };
    let keeps_old = append.unwrap_or(true);
    let sizes: Vec<usize> = all
        .iter()
        .map(|t| if t.0 == "OLD" { Some(PRE.len()) } else { line_len(a, t) })
        .collect::<Option<Vec<_>>>()?;
    // window: index -> lines
    let (count, base) = match rol {
        Rol::Delete => (0u32, 0u32),
        Rol::Window { count, base } => (*count, base.unwrap_or(0)),
    };
    let mut win: BTreeMap<u32, usize> = BTreeMap::new();
    let roll = |win: &mut BTreeMap<u32, usize>, lines: usize| {
        if count == 0 {
            return;
        }
        for i in (base..base + count - 1).rev() {
            if let Some(x) = win.remove(&i) {
                win.insert(i + 1, x);
            }
        }
        win.insert(base, lines);
    };
    let mut active_lines = 0usize;
    let mut active_bytes = 0usize;
    let mut exists = true;
    let mut idx = 0;
    if keeps_old && !all.is_empty() && all[0].0 == "OLD" {
        active_lines = 1;
        active_bytes = PRE.len();
        idx = 1;
    }
    let mut first = true;
    for k in idx..all.len() {
        match trig {
            Trig::OnStartUp { min_size } => {
                if first && active_bytes as u64 >= min_size.unwrap_or(1) {
                    roll(&mut win, active_lines);
                    active_lines = 0;
                    active_bytes = 0;
                }
            }
            _ => {}
        }
        first = false;
        exists = true;
        active_lines += 1;
        active_bytes += sizes[k];
        if let Trig::Size { limit, .. } = trig {
            if active_bytes as u64 > *limit {
                roll(&mut win, active_lines);
                active_lines = 0;
                active_bytes = 0;
                exists = false;
            }
        }
    }
    let mut out = BTreeMap::new();
    if exists {
        out.insert(format!("{}.log", a.name), active_lines);
    }
    for (i, n) in win {
        out.insert(format!("{}.{}.log", a.name, i), n);
    }
    Some(out)
}

fn programmatic(l: &Logical, dir: &Path) -> Result<Config, String> {
    let d = dir.to_str().unwrap();
    let mut b = Config::builder();
    for a in &l.apps {
        let enc = |a: &AppSpec| -> Option<Box<dyn Encode>> {
            match &a.enc {
                Enc::Omitted => None,
                Enc::Json => Some(Box::new(JsonEncoder::new())),
                Enc::Pattern { pattern: None, .. } => Some(Box::new(PatternEncoder::default())),
                Enc::Pattern { pattern: Some(p), .. } => Some(Box::new(PatternEncoder::new(PATTERNS[*p]))),
            }
        };
        let app: Box<dyn Append> = match &a.kind {
            Kind::Console { stderr } => {
                let mut cb = ConsoleAppender::builder().tty_only(true);
                if let Some(e) = stderr {
                    cb = cb.target(if *e { log4rs::append::console::Target::Stderr } else { log4rs::append::console::Target::Stdout });
                }
                if let Some(e) = enc(a) {
                    cb = cb.encoder(e);
                }
                Box::new(cb.build())
            }
            Kind::File { append } => {
                let mut fb = FileAppender::builder();
                if let Some(x) = append {
                    fb = fb.append(*x);
                }
                if let Some(e) = enc(a) {
                    fb = fb.encoder(e);
                }
                Box::new(fb.build(format!("{}/{}.log", d, a.name)).map_err(|e| e.to_string())?)
            }
            Kind::Rolling { append, trig, rol, .. } => {
                let t: Box<dyn Trigger> = match trig {
                    Trig::Size { limit, .. } => Box::new(SizeTrigger::new(*limit)),
                    Trig::OnStartUp { min_size } => Box::new(OnStartUpTrigger::new(min_size.unwrap_or(1))),
                    Trig::Time => Box::new(log4rs::append::rolling_file::policy::compound::trigger::time::TimeTrigger::new(
                        log4rs::append::rolling_file::policy::compound::trigger::time::TimeTrigger::verif_config(
                            log4rs::append::rolling_file::policy::compound::trigger::time::TimeTriggerInterval::Day(1), false, 0))),
                };
                let r: Box<dyn Roll> = match rol {
                    Rol::Delete => Box::new(DeleteRoller::new()),
                    Rol::Window { count, base } => Box::new(
                        FixedWindowRoller::builder().base(base.unwrap_or(0)).build(&format!("{}/{}.{{}}.log", d, a.name), *count).map_err(|e| e.to_string())?,
                    ),
                };
                let mut rb = RollingFileAppender::builder();
                if let Some(x) = append {
                    rb = rb.append(*x);
                }
                if let Some(e) = enc(a) {
                    rb = rb.encoder(e);
                }
                Box::new(rb.build(format!("{}/{}.log", d, a.name), Box::new(CompoundPolicy::new(t, r))).map_err(|e| e.to_string())?)
            }
        };
        let mut ab = Appender::builder();
        for t in &a.thresholds {
            ab = ab.filter(Box::new(ThresholdFilter::new(*t)));
        }
        b = b.appender(ab.build(a.name.clone(), app));
    }
    for lg in &l.routing.loggers {
        let mut lb = Logger::builder().additive(lg.additive);
        for a in &lg.appenders {
            lb = lb.appender(a.clone());
        }
        b = b.logger(lb.build(lg.name.clone(), lg.level));
    }
    let mut rb = Root::builder();
    for a in &l.routing.root_appenders {
        rb = rb.appender(a.clone());
    }
    b.build(rb.build(l.routing.root_level)).map_err(|e| format!("{:?}", e))
}

fn view(cfg: &Config) -> Value {
    let mut apps: Vec<String> = cfg.appenders().iter().map(|a| a.name().to_owned()).collect();
    apps.sort();
    let mut loggers: Vec<Value> = cfg.loggers().iter().map(|l| json!({"name": l.name(), "level": l.level().to_string(),
        "additive": l.additive(), "appenders": l.appenders()})).collect();
    loggers.sort_by_key(|v| v["name"].as_str().unwrap().to_owned());
    json!({"appenders": apps, "root": {"level": cfg.root().level().to_string(), "appenders": cfg.root().appenders()}, "loggers": loggers})
}

fn logical_view(l: &Logical, present: &[String]) -> Value {
    let mut apps: Vec<String> = l.apps.iter().map(|a| a.name.clone()).filter(|n| present.contains(n)).collect();
    apps.sort();
    let keep = |v: &Vec<String>| -> Vec<String> { v.iter().filter(|a| present.contains(a)).cloned().collect() };
    let mut loggers: Vec<Value> = l.routing.loggers.iter().map(|lg| json!({"name": lg.name, "level": lg.level.to_string(),
        "additive": lg.additive, "appenders": keep(&lg.appenders)})).collect();
    loggers.sort_by_key(|v| v["name"].as_str().unwrap().to_owned());
    json!({"appenders": apps, "root": {"level": l.routing.root_level.to_string(), "appenders": keep(&l.routing.root_appenders)}, "loggers": loggers})
}

fn probes_for(l: &Logical, rng: &mut Rng) -> Vec<(String, Level)> {
    let mut t = probe_targets(&l.routing, rng);
    // keep the output lines of the fixed patterns unambiguous
    t.retain(|s| !s.is_empty() && !s.contains('|') && !s.contains(' ') && !s.contains('<') && !s.contains('>'));
    rng.shuffle(&mut t);
    t.truncate(10);
    let mut out = vec![];
    for (k, tg) in t.iter().enumerate() {
        for lv in LEVELS {
            if (k + lv as usize) % 2 == 0 {
                out.push((tg.clone(), lv));
            }
        }
    }
    out
}

// ------------------------------------------------------------------ checks

fn check_equivalence(rep: &mut Report, rng: &mut Rng, idx: u64) {
    let l = gen_logical(rng);
    let probes = probes_for(&l, rng);
    let all: Vec<String> = l.apps.iter().map(|a| a.name.clone()).collect();
    let want = expected_lines(&l, &probes, &all);
    let mut outcomes: Vec<(String, Outcome)> = vec![];
    let desc = |fmt: &str, text: &str| json!({"format": fmt, "document": text});
    let doc_for_report = document(&l, "<DIR>");
    rep.case(&doc_for_report.to_string(), true);
    for fmt in FORMATS.iter().chain(["programmatic"].iter()) {
        if *fmt == "yaml:flow" && l.routing.loggers.iter().any(|lg| lg.name.len() > 1000) {
            continue; // YAML limits an implicit key to 1024 characters: such a document is not YAML in flow style
        }
        let sc = Scratch::new("c14");
        let dir = sc.path.clone();
        prepopulate(&l, &dir);
        let (cfg, text) = if *fmt == "programmatic" {
            match programmatic(&l, &dir) {
                Ok(c) => (c, "(builder API)".to_owned()),
                Err(e) => {
                    rep.inconclusive(&format!("harness could not build the programmatic equivalent: {}", e));
                    return;
                }
            }
        } else {
            let mut doc = document(&l, dir.to_str().unwrap());
            if idx % 2 == 1 && !fmt.starts_with("toml") {
                // (TOML has no null)
                doc = with_explicit_nulls(&doc);
                rep.count("documents_with_explicit_nulls_for_omitted_optional_keys", 1);
            }
            let text = match serialize(&doc, fmt) {
                Ok(t) => t,
                Err(e) => {
                    rep.inconclusive(&e);
                    return;
                }
            };
            let path = dir.join(format!("log4rs.{}", ext(fmt)));
            std::fs::write(&path, &text).unwrap();
            rep.observe("writing_styles", fmt);
            match trap::catch(|| log4rs::config::load_config_file(&path, Deserializers::default())) {
                Err(p) => {
                    rep.violation(&format!("C14:panic:load_config_file:{}", p.site()), json!({"case": desc(fmt, &text), "panic": p.message}));
                    return;
                }
                Ok(Err(e)) => {
                    rep.violation("C14:valid-document-rejected", json!({"case": desc(fmt, &text), "error": format!("{:#}", e)}));
                    return;
                }
                Ok(Ok(c)) => {
                    // refresh rate, through the raw config
                    let raw: Result<RawConfig, String> = match ext(fmt) {
                        "json" => serde_json::from_str(&text).map_err(|e| e.to_string()),
                        "toml" => toml::from_str(&text).map_err(|e| e.to_string()),
                        _ => serde_yaml::from_str(&text).map_err(|e| e.to_string()),
                    };
                    match raw {
                        Ok(r) => {
                            if r.refresh_rate() != l.refresh.map(std::time::Duration::from_secs) {
                                rep.violation("C14:refresh-rate", json!({"case": desc(fmt, &text), "expected_seconds": l.refresh, "got": format!("{:?}", r.refresh_rate())}));
                            }
                        }
                        Err(e) => rep.violation("C14:valid-document-rejected", json!({"case": desc(fmt, &text), "error": e})),
                    }
                    (c, text)
                }
            }
        };
        rep.count("documents_loaded", 1);
        if view(&cfg) != logical_view(&l, &all) {
            rep.violation("C14:loaded-config-differs-from-document", json!({"case": desc(fmt, &text), "expected": logical_view(&l, &all), "got": view(&cfg)}));
            return;
        }
        match drive(&l, cfg, &dir, &probes, &all) {
            Err((sig, what)) => {
                rep.violation(&format!("C14:{}", sig), json!({"case": desc(fmt, &text), "what": what}));
                return;
            }
            Ok(o) => {
                // behaviour against the statement
                for (name, w) in &want {
                    let got = o.lines.get(name).cloned().unwrap_or_default();
                    let a = l.apps.iter().find(|a| &a.name == name).unwrap();
                    // what the retention window may have dropped is only the oldest data
                    let lossy_roller = matches!(a.kind, Kind::Rolling { .. });
                    let ok = if lossy_roller { w.ends_with(&got) } else { &got == w };
                    if !ok {
                        let sig = if !got.is_empty() && !w.is_empty() && got[0].0 == "OLD" && w[0].0 != "OLD" {
                            "C14:append-flag:file-not-truncated"
                        } else if !w.is_empty() && w[0].0 == "OLD" && (got.is_empty() || got[0].0 != "OLD") && !lossy_roller {
                            "C14:append-default:existing-content-lost"
                        } else {
                            "C14:behaviour-differs-from-document"
                        };
                        rep.violation(sig, json!({"case": desc(fmt, &text), "appender": name,
                            "expected_records": format!("{:?}", w), "got_records": format!("{:?}", got)}));
                        return;
                    }
                    rep.count("appender_outputs_compared", 1);
                    if let Some(layout) = expected_layout(a, w) {
                        let gl = o.files.get(name).cloned().unwrap_or_default();
                        if gl != layout {
                            rep.violation("C14:rolling-policy-behaves-differently", json!({"case": desc(fmt, &text), "appender": name,
                                "expected_files(lines)": format!("{:?}", layout), "got_files(lines)": format!("{:?}", gl)}));
                            return;
                        }
                        rep.count("rolling_layouts_compared", 1);
                    }
                }
                outcomes.push((fmt.to_string(), o));
            }
        }
    }
    // the formats agree with one another and with the builder API
    for (f, o) in &outcomes[1..] {
        if o.fingerprint != outcomes[0].1.fingerprint {
            let diff: Vec<String> = o.fingerprint.iter().filter(|(k, v)| outcomes[0].1.fingerprint.get(*k) != Some(v))
                .map(|(k, v)| format!("{}: {} <> {}", k, v, outcomes[0].1.fingerprint.get(k).cloned().unwrap_or_default())).collect();
            rep.violation("C14:formats-disagree:component-fingerprint", json!({"document": doc_for_report, "formats": [outcomes[0].0, f], "differences": diff}));
            return;
        }
        // file layouts are only comparable where the encoded size is deterministic (the default pattern and the
        // JSON encoder print a timestamp whose length varies)
        let layout = |o: &Outcome| -> BTreeMap<String, BTreeMap<String, usize>> {
            o.files.iter().filter(|(name, _)| {
                l.apps.iter().find(|a| &a.name == *name).map(|a| matches!(a.enc, Enc::Pattern { pattern: Some(_), .. })).unwrap_or(false)
            }).map(|(k, v)| (k.clone(), v.clone())).collect()
        };
        // ... and so is the set of records a rolling appender still retains
        let retained = |o: &Outcome| -> BTreeMap<String, Vec<Triple>> {
            o.lines.iter().filter(|(name, _)| {
                l.apps.iter().find(|a| &a.name == *name).map(|a| !matches!(a.kind, Kind::Rolling { .. }) || matches!(a.enc, Enc::Pattern { pattern: Some(_), .. })).unwrap_or(false)
            }).map(|(k, v)| (k.clone(), v.clone())).collect()
        };
        if retained(o) != retained(&outcomes[0].1) || layout(o) != layout(&outcomes[0].1) {
            rep.violation("C14:formats-disagree:behaviour", json!({"document": doc_for_report, "formats": [outcomes[0].0, f]}));
            return;
        }
    }
    rep.count("format_sets_compared", 1);
    if idx < 2 {
        rep.sample(json!({"logical_document": doc_for_report}));
    }
}

// -------------------------------------------------------------- injections

#[derive(Clone, Copy, Debug, PartialEq)]
enum Effect {
    /// the whole load must fail
    LoadFails,
    /// strict pipeline fails; lossy drops exactly this appender and reports it
    DropsAppender,
    /// strict pipeline fails; lossy reports and drops only the broken filter, the appender and its other filters stay
    DropsFilter,
}

fn path_set(v: &mut Value, path: &[&str], key: &str, val: Value) -> bool {
    let mut cur = v;
    for p in path {
        match cur.get_mut(*p) {
            Some(n) => cur = n,
            None => return false,
        }
    }
    match cur.as_object_mut() {
        Some(m) => {
            m.insert(key.to_owned(), val);
            true
        }
        None => false,
    }
}

fn check_injection(rep: &mut Report, rng: &mut Rng, idx: u64) {
    let mut l = gen_logical(rng);
    // make sure there is something to break in every section
    if l.routing.loggers.is_empty() {
        l.routing.loggers.push(LoggerSpec { name: "inj".into(), level: LevelFilter::Info, additive: true, appenders: vec![] });
        l.additive_given.push(true);
    }
    let sc = Scratch::new("c14i");
    let dir = sc.path.clone();
    let d = dir.to_str().unwrap().to_owned();
    let mut doc = document(&l, &d);
    let victim = rng.pick(&l.apps).clone();
    let vname = victim.name.clone();
    let lname = l.routing.loggers[0].name.clone();
    if doc.get("root").is_none() {
        doc.as_object_mut().unwrap().insert("root".into(), json!({"level": "debug"}));
    }
    // every referenced place exists now; choose an injection
    let rolling = matches!(victim.kind, Kind::Rolling { .. });
    let has_enc = !matches!(victim.enc, Enc::Omitted);
    let mut options: Vec<(&str, Effect)> = vec![
        ("unknown-key:document", Effect::LoadFails),
        ("unknown-key:root", Effect::LoadFails),
        ("unknown-key:logger", Effect::LoadFails),
        ("unknown-key:appender", Effect::DropsAppender),
        ("wrong-type:logger-level", Effect::LoadFails),
        ("wrong-type:additive", Effect::LoadFails),
        ("unknown-kind:appender", Effect::DropsAppender),
        ("missing-kind:appender", Effect::LoadFails),
        ("dangling:root", Effect::DropsAppender),
        ("unknown-level:root", Effect::LoadFails),
    ];
    if has_enc {
        options.push(("unknown-key:encoder", Effect::DropsAppender));
        options.push(("unknown-kind:encoder", Effect::DropsAppender));
    }
    if rolling {
        options.push(("unknown-key:policy", Effect::DropsAppender));
        options.push(("unknown-key:trigger", Effect::DropsAppender));
        options.push(("unknown-key:roller", Effect::DropsAppender));
        options.push(("unknown-kind:trigger", Effect::DropsAppender));
        options.push(("unknown-kind:roller", Effect::DropsAppender));
        options.push(("unknown-kind:policy", Effect::DropsAppender));
        options.push(("degenerate:trigger-numbers", Effect::DropsAppender));
        options.push(("degenerate:roller-numbers", Effect::DropsAppender));
        options.push(("missing:roller-pattern-braces", Effect::DropsAppender));
        options.push(("missing:required-number", Effect::DropsAppender));
    }
    if matches!(victim.kind, Kind::File { .. } | Kind::Rolling { .. }) {
        options.push(("wrong-type:append", Effect::DropsAppender));
        options.push(("missing:path", Effect::DropsAppender));
    }
    options.push(("broken-filter:unknown-kind", Effect::DropsFilter));
    options.push(("broken-filter:bad-level", Effect::DropsFilter));
    options.push(("broken-filter:missing-level", Effect::DropsFilter));
    options.push(("broken-filter:unknown-kind", Effect::DropsFilter));
    let (inj, effect) = *rng.pick(&options[..]);
    let mut dangling = false;
    let mut never_panic_only = false;
    let ok = match inj {
        "unknown-key:document" => path_set(&mut doc, &[], "bogus_key", json!(1)),
        "unknown-key:root" => path_set(&mut doc, &["root"], "bogus_key", json!("x")),
        "unknown-key:logger" => path_set(&mut doc, &["loggers", &lname], "bogus_key", json!(true)),
        "unknown-key:appender" => path_set(&mut doc, &["appenders", &vname], "bogus_key", json!(1)),
        "unknown-key:encoder" => path_set(&mut doc, &["appenders", &vname, "encoder"], "bogus_key", json!(1)),
        "unknown-key:policy" => path_set(&mut doc, &["appenders", &vname, "policy"], "bogus_key", json!(1)),
        "unknown-key:trigger" => path_set(&mut doc, &["appenders", &vname, "policy", "trigger"], "bogus_key", json!(1)),
        "unknown-key:roller" => path_set(&mut doc, &["appenders", &vname, "policy", "roller"], "bogus_key", json!(1)),
        "wrong-type:logger-level" => path_set(&mut doc, &["loggers", &lname], "level", json!(5)),
        "wrong-type:additive" => path_set(&mut doc, &["loggers", &lname], "additive", json!("yes please")),
        "wrong-type:append" => path_set(&mut doc, &["appenders", &vname], "append", json!("maybe")),
        "unknown-level:root" => path_set(&mut doc, &["root"], "level", json!("verbose")),
        "unknown-kind:appender" => path_set(&mut doc, &["appenders", &vname], "kind", json!("carrier_pigeon")),
        "missing-kind:appender" => doc["appenders"][&vname].as_object_mut().map(|m| m.remove("kind").is_some()).unwrap_or(false),
        "unknown-kind:encoder" => path_set(&mut doc, &["appenders", &vname, "encoder"], "kind", json!("morse")),
        "unknown-kind:policy" => path_set(&mut doc, &["appenders", &vname, "policy"], "kind", json!("whenever")),
        "unknown-kind:trigger" => path_set(&mut doc, &["appenders", &vname, "policy", "trigger"], "kind", json!("moon_phase")),
        "unknown-kind:roller" => path_set(&mut doc, &["appenders", &vname, "policy", "roller"], "kind", json!("shredder")),
        "missing:path" => doc["appenders"][&vname].as_object_mut().map(|m| m.remove("path").is_some()).unwrap_or(false),
        "missing:roller-pattern-braces" => {
            if doc["appenders"][&vname]["policy"]["roller"]["kind"] == json!("fixed_window") {
                path_set(&mut doc, &["appenders", &vname, "policy", "roller"], "pattern", json!(format!("{}/no-index.log", d)))
            } else {
                false
            }
        }
        "missing:required-number" => {
            // a required number that is simply absent: the roller's `count`, the size trigger's `limit`,
            // the roller's `pattern` (whichever the victim has)
            let mut done = false;
            let roller_is_fw = doc["appenders"][&vname]["policy"]["roller"]["kind"] == json!("fixed_window");
            let trigger_is_size = doc["appenders"][&vname]["policy"]["trigger"]["kind"] == json!("size");
            let first = rng.below(2) == 0;
            if roller_is_fw && (first || !trigger_is_size) {
                done = doc["appenders"][&vname]["policy"]["roller"].as_object_mut().map(|m| m.remove("count").is_some()).unwrap_or(false);
            }
            if !done && trigger_is_size {
                done = doc["appenders"][&vname]["policy"]["trigger"].as_object_mut().map(|m| m.remove("limit").is_some()).unwrap_or(false);
            }
            done
        }
        "degenerate:trigger-numbers" => {
            never_panic_only = true;
            let t = match rng.below(9) {
                0 => json!({"kind": "size", "limit": -5}),
                1 => json!({"kind": "size", "limit": "18446744073709551616"}),
                2 => json!({"kind": "size", "limit": "99999999999 tb"}),
                3 => json!({"kind": "time", "interval": "400000 years"}),
                4 => json!({"kind": "time", "interval": 9223372036854775807u64}),
                5 => json!({"kind": "time", "interval": "0 seconds", "modulate": true}),
                6 => json!({"kind": "time", "interval": "5000000000 months", "modulate": true}),
                7 => json!({"kind": "time", "interval": "1 hour", "max_random_delay": 18446744073709551615u64}),
                _ => json!({"kind": "onstartup", "min_size": -1}),
            };
            path_set(&mut doc, &["appenders", &vname, "policy"], "trigger", t)
        }
        "degenerate:roller-numbers" => {
            never_panic_only = true;
            let r = match rng.below(4) {
                0 => json!({"kind": "fixed_window", "pattern": format!("{}/{}.{{}}.log", d, vname), "count": -1}),
                1 => json!({"kind": "fixed_window", "pattern": format!("{}/{}.{{}}.log", d, vname), "count": 4294967296u64}),
                2 => json!({"kind": "fixed_window", "pattern": format!("{}/{}.{{}}.log", d, vname), "count": 2, "base": -3}),
                _ => json!({"kind": "fixed_window", "pattern": format!("{}/{}.{{}}.log", d, vname), "count": 0}),
            };
            path_set(&mut doc, &["appenders", &vname, "policy"], "roller", r)
        }
        "broken-filter:unknown-kind" | "broken-filter:bad-level" | "broken-filter:missing-level" => {
            let broken = match inj {
                "broken-filter:unknown-kind" => json!({"kind": "sieve", "level": "info"}),
                "broken-filter:bad-level" => json!({"kind": "threshold", "level": "loud"}),
                _ => json!({"kind": "threshold"}),
            };
            let mut v: Vec<Value> = doc["appenders"][&vname]["filters"].as_array().cloned().unwrap_or_default();
            let pos = rng.usize_below(v.len() + 1);
            v.insert(pos, broken);
            path_set(&mut doc, &["appenders", &vname], "filters", json!(v))
        }
        "dangling:root" => {
            dangling = true;
            let mut v: Vec<Value> = doc["root"]["appenders"].as_array().cloned().unwrap_or_default();
            v.push(json!("no_such_appender"));
            path_set(&mut doc, &["root"], "appenders", json!(v))
        }
        _ => false,
    };
    if !ok {
        return;
    }
    let fmt = *rng.pick(&FORMATS[..3]);
    let text = match serialize(&doc, fmt) {
        Ok(t) => t,
        Err(_) => return, // e.g. TOML cannot express this injected value
    };
    let path = dir.join(format!("log4rs.{}", fmt));
    std::fs::write(&path, &text).unwrap();
    prepopulate(&l, &dir);
    let cdesc = json!({"injection": inj, "appender": vname, "format": fmt, "document": text});
    rep.case(&format!("{}|{}", inj, text), true);
    rep.observe("injection_kinds", inj);
    rep.count("injections", 1);
    // ---- lossy pipeline: load_config_file
    let loaded = match trap::catch(|| log4rs::config::load_config_file(&path, Deserializers::default())) {
        Err(p) => {
            rep.violation(&format!("C14:panic:load_config_file:{}", p.site()), json!({"case": cdesc, "panic": p.message}));
            return;
        }
        Ok(r) => r,
    };
    // ---- strict pipeline
    let raw: Result<RawConfig, String> = match fmt {
        "json" => serde_json::from_str(&text).map_err(|e| e.to_string()),
        "toml" => toml::from_str(&text).map_err(|e| e.to_string()),
        _ => serde_yaml::from_str(&text).map_err(|e| e.to_string()),
    };
    let strict = match &raw {
        Ok(r) => {
            let r = r.clone();
            match trap::catch(move || log4rs::config::create_raw_config(r)) {
                Err(p) => {
                    rep.violation(&format!("C14:panic:create_raw_config:{}", p.site()), json!({"case": cdesc, "panic": p.message}));
                    return;
                }
                Ok(x) => Some(x.is_ok()),
            }
        }
        Err(_) => None,
    };
    if never_panic_only {
        // degenerate numbers: rejected or dropped or accepted, but the rest must keep working
        rep.count("degenerate_number_documents", 1);
        if let Ok(cfg) = loaded {
            let present: Vec<String> = cfg.appenders().iter().map(|a| a.name().to_owned()).collect();
            let others: Vec<String> = present.iter().filter(|n| **n != vname).cloned().collect();
            let probes = probes_for(&l, rng);
            match drive(&l, cfg, &dir, &probes, &others) {
                Err((sig, what)) => rep.violation(&format!("C14:degenerate:{}", sig), json!({"case": cdesc, "what": what})),
                Ok(o) => {
                    let want = expected_lines(&l, &probes, &present);
                    for (name, w) in &want {
                        if *name == vname {
                            continue;
                        }
                        let a = l.apps.iter().find(|a| &a.name == name).unwrap();
                        let got = o.lines.get(name).cloned().unwrap_or_default();
                        let ok = if matches!(a.kind, Kind::Rolling { .. }) { w.ends_with(&got) } else { &got == w };
                        if !ok {
                            rep.violation("C14:degenerate:rest-of-the-configuration-broken", json!({"case": cdesc, "appender": name,
                                "expected_records": format!("{:?}", w), "got_records": format!("{:?}", got)}));
                            return;
                        }
                    }
                }
            }
        }
        return;
    }
    match effect {
        Effect::LoadFails => {
            if loaded.is_ok() {
                rep.violation(&format!("C14:accepted:{}", inj), json!({"case": cdesc, "what": "load_config_file accepted the document"}));
            }
            if strict == Some(true) {
                rep.violation(&format!("C14:strict-accepted:{}", inj), json!({"case": cdesc}));
            }
        }
        Effect::DropsAppender | Effect::DropsFilter => {
            if strict == Some(true) {
                rep.violation(&format!("C14:strict-accepted:{}", inj), json!({"case": cdesc, "what": "create_raw_config accepted the document"}));
                return;
            }
            let cfg = match loaded {
                Ok(c) => c,
                Err(e) => {
                    rep.violation(&format!("C14:lossy-load-failed:{}", inj), json!({"case": cdesc,
                        "what": "lossy loading must drop the broken part and keep the rest", "error": format!("{:#}", e)}));
                    return;
                }
            };
            let present: Vec<String> = if dangling || effect == Effect::DropsFilter {
                l.apps.iter().map(|a| a.name.clone()).collect()
            } else {
                l.apps.iter().map(|a| a.name.clone()).filter(|n| *n != vname).collect()
            };
            // the error must be reported (observed through appenders_lossy / build_lossy)
            if let Ok(r) = &raw {
                let (apps, errs) = r.appenders_lossy(&Deserializers::default());
                if !dangling {
                    let text_err = format!("{:?}", errs);
                    if errs.is_empty() || !text_err.contains(&vname) {
                        rep.violation(&format!("C14:broken-appender-not-reported:{}", inj), json!({"case": cdesc, "errors": text_err}));
                        return;
                    }
                } else {
                    let (_, e2) = Config::builder().appenders(apps).loggers(r.loggers()).build_lossy(r.root());
                    if !format!("{:?}", e2).contains("no_such_appender") {
                        rep.violation("C14:dangling-reference-not-reported", json!({"case": cdesc, "errors": format!("{:?}", e2)}));
                        return;
                    }
                }
            }
            if view(&cfg) != logical_view(&l, &present) {
                rep.violation(&format!("C14:lossy-result-differs:{}", inj), json!({"case": cdesc, "expected": logical_view(&l, &present), "got": view(&cfg)}));
                return;
            }
            let probes = probes_for(&l, rng);
            match drive(&l, cfg, &dir, &probes, &present) {
                Err((sig, what)) => rep.violation(&format!("C14:lossy:{}", sig), json!({"case": cdesc, "what": what})),
                Ok(o) => {
                    let want = expected_lines(&l, &probes, &present);
                    for (name, w) in &want {
                        let a = l.apps.iter().find(|a| &a.name == name).unwrap();
                        let got = o.lines.get(name).cloned().unwrap_or_default();
                        let ok = if matches!(a.kind, Kind::Rolling { .. }) { w.ends_with(&got) } else { &got == w };
                        if !ok {
                            rep.violation("C14:lossy:rest-of-the-configuration-broken", json!({"case": cdesc, "appender": name,
                                "expected_records": format!("{:?}", w), "got_records": format!("{:?}", got)}));
                            return;
                        }
                    }
                    rep.count("lossy_loads_with_working_rest", 1);
                }
            }
        }
    }
    if idx < 3 {
        rep.sample(json!({"injection": inj, "format": fmt, "expected": format!("{:?}", effect)}));
    }
}

/// Child: the same partly broken document is loaded three times in one process; what `load_config_file`
/// reports goes to stderr.
pub fn child_reports(args: &[String]) -> i32 {
    let dir = std::path::PathBuf::from(&args[0]);
    let path = dir.join("log4rs.yaml");
    std::fs::write(&path, format!("appenders:\n  ok:\n    kind: file\n    path: {}/ok.log\n  broken:\n    kind: file\nroot:\n  level: info\n  appenders: [ok, ghost, broken]\n", dir.to_str().unwrap())).unwrap();
    for _ in 0..3 {
        let _ = log4rs::config::load_config_file(&path, Deserializers::default());
    }
    // and a document with a single problem, three times
    eprintln!("SECOND-DOCUMENT");
    std::fs::write(&path, format!("appenders:\n  ok:\n    kind: file\n    path: {}/ok.log\nroot:\n  level: info\n  appenders: [ok, phantom]\n", dir.to_str().unwrap())).unwrap();
    for _ in 0..3 {
        let _ = log4rs::config::load_config_file(&path, Deserializers::default());
    }
    0
}

fn report_cases(rep: &mut Report) {
    if rep.only.is_some() {
        return;
    }
    let sc = Scratch::new("c14r");
    match crate::childproc::run_child(&["c14reports".to_owned(), sc.path.to_str().unwrap().to_owned()], &[], std::time::Duration::from_secs(60)) {
        Err(e) => rep.inconclusive(&format!("cannot spawn the reports child: {}", e)),
        Ok(o) if o.timed_out || o.status != Some(0) => rep.inconclusive("reports child failed"),
        Ok(o) => {
            let err = String::from_utf8_lossy(&o.stderr).into_owned();
            rep.case_enumerated(true);
            rep.count("lossy_loads_observed_on_stderr", 3);
            let ghost = err.matches("ghost").count();
            let broken = err.matches("broken").count();
            // every load reports the dangling name `ghost` once, and the appender `broken` (missing path) at least once
            let phantom = err.matches("phantom").count();
            if ghost != 3 || broken < 3 || phantom != 3 {
                rep.violation("C14:lossy:not-reported-on-every-load", json!({"what": "the same partly broken document was loaded three times in one process",
                    "reports_naming_ghost": ghost, "reports_naming_broken": broken, "reports_naming_phantom_in_the_second_document": phantom, "stderr": err}));
            }
        }
    }
}

/// Encoder sections at the edge of "present": an empty pattern (nothing is written per record, as with
/// `PatternEncoder::new("")`), a pattern that is only a newline, only `kind`, an empty section.
fn edge_encoder_cases(rep: &mut Report, _rng: &mut Rng, idx: u64) {
    let fmt = ["yaml", "json", "toml"][(idx % 3) as usize];
    let shape = (idx / 3) % 7;
    let sc = Scratch::new("c14e");
    let dir = sc.path.to_str().unwrap().to_owned();
    let (enc_doc, reference): (Value, Box<dyn log4rs::encode::Encode>) = match shape {
        0 => (json!({"pattern": ""}), Box::new(PatternEncoder::new(""))),
        1 => (json!({"kind": "pattern", "pattern": ""}), Box::new(PatternEncoder::new(""))),
        2 => (json!({"pattern": "{n}"}), Box::new(PatternEncoder::new("{n}"))),
        3 => (json!({"kind": "pattern"}), Box::new(PatternEncoder::default())),
        5 => (json!({"pattern": "{l} {m}\n"}), Box::new(PatternEncoder::new("{l} {m}\n"))),
        6 => (json!({"pattern": " {m} \t\n\n"}), Box::new(PatternEncoder::new(" {m} \t\n\n"))),
        _ => (json!({"pattern": "{m}"}), Box::new(PatternEncoder::new("{m}"))),
    };
    let doc = json!({"appenders": {"f": {"kind": "file", "path": format!("{}/from_document.log", dir), "encoder": enc_doc}},
        "root": {"level": "trace", "appenders": ["f"]}});
    let text = match serialize(&doc, fmt) {
        Ok(t) => t,
        Err(e) => {
            rep.inconclusive(&e);
            return;
        }
    };
    let path = sc.path.join(format!("log4rs.{}", fmt));
    std::fs::write(&path, &text).unwrap();
    rep.case(&format!("edge-encoder|{}|{}", fmt, shape), true);
    rep.count("edge_encoder_sections", 1);
    let cfg = match trap::catch(|| log4rs::config::load_config_file(&path, Deserializers::default())) {
        Err(p) => {
            rep.violation(&format!("C14:panic:load_config_file:{}", p.site()), json!({"document": text, "panic": p.message}));
            return;
        }
        Ok(Err(e)) => {
            rep.violation("C14:valid-document-rejected", json!({"document": text, "error": format!("{:#}", e)}));
            return;
        }
        Ok(Ok(c)) => c,
    };
    if cfg.appenders().len() != 1 {
        rep.violation("C14:valid-appender-dropped", json!({"document": text}));
        return;
    }
    let programmatic = log4rs::config::Config::builder()
        .appender(log4rs::config::Appender::builder().build("f", Box::new(
            log4rs::append::file::FileAppender::builder().encoder(reference).build(format!("{}/from_builder.log", dir)).unwrap())))
        .build(log4rs::config::Root::builder().appender("f").build(LevelFilter::Trace))
        .unwrap();
    for c in [cfg, programmatic] {
        let logger = log4rs::Logger::new(c);
        for (k, lvl) in LEVELS.iter().enumerate() {
            log::Log::log(&logger, &log::Record::builder().target("t").level(*lvl).args(format_args!("message {}", k)).build());
        }
    }
    let a = std::fs::read(sc.path.join("from_document.log")).unwrap_or_default();
    let b = std::fs::read(sc.path.join("from_builder.log")).unwrap_or_default();
    // (the default pattern prints a timestamp: compare its shape only)
    let same = if shape == 3 { a.iter().filter(|x| **x == b'\n').count() == b.iter().filter(|x| **x == b'\n').count() && a.len().abs_diff(b.len()) < 40 } else { a == b };
    if !same {
        rep.violation("C14:behaviour-differs-from-document:encoder-section", json!({"document": text,
            "written_through_the_document": String::from_utf8_lossy(&a), "written_through_the_builder": String::from_utf8_lossy(&b)}));
    }
}

pub fn run(rep: &mut Report) {
    crate::c09::set_test_zone();
    rep.rule = "logical configurations (1-4 appenders of kind console / file / rolling_file with pattern / json / defaulted / omitted encoders, \
        threshold filters, compound policies with size / onstartup / time triggers and delete / fixed_window rollers, optional fields \
        present or left to default, 0-3 loggers, optional refresh_rate) rendered to YAML, JSON, TOML and .yml by independent serializers \
        and loaded with load_config_file; the accessor view, the Debug fingerprint of every component, and the files written when \
        the resulting Logger is driven with a probe set (over pre-populated files, so that append defaults and rolling policies are \
        observed behaviourally, incl. exact file layouts) must agree with the document, across formats, and with the programmatic \
        build; injections: unknown key at document/root/logger/appender/encoder/policy/trigger/roller level, wrong types, unknown \
        kinds, missing required fields, dangling names, degenerate numbers - strict pipeline must fail, lossy pipeline must report \
        and drop exactly the broken part and keep the rest working, nothing may panic; non-trivial: all; distinct = distinct document".to_owned();
    rep.assume("YAML/TOML syntax features beyond what the serializers emit (anchors, multi-line strings, inline tables) are not exercised");
    rep.assume("console appenders are configured tty_only so that nothing is printed by the harness; their behaviour is C18's business");
    rep.assume("for degenerate numbers either rejection, dropping or acceptance is allowed; only totality and the rest of the configuration are judged");
    let thorough = rep.tier == "thorough";
    run_cases(rep, "equivalence", if thorough { 4000 } else { 400 }, check_equivalence);
    run_cases(rep, "injection", if thorough { 40_000 } else { 8_000 }, check_injection);
    run_cases(rep, "edge-encoder", 21, edge_encoder_cases);
    report_cases(rep);
    rep.require(rep.counter("format_sets_compared") > 50, "fewer than 50 complete format sets compared");
    rep.require(rep.counter("rolling_layouts_compared") > 20, "fewer than 20 rolling layouts compared");
    rep.require(rep.set_size("injection_kinds") >= 20, "fewer than 20 injection kinds exercised");
    rep.require(rep.counter("lossy_loads_with_working_rest") > 100, "fewer than 100 lossy loads checked");
}
