//! C04 — file appender: acknowledged records are visible, whole, ordered, not interleaved.

use crate::frames::*;
use crate::fsutil::{show_bytes, Scratch};
use crate::hooks;
use crate::par::run_cases;
use crate::report::Report;
use crate::rng::Rng;
use crate::trap;
use log::Record;
use log4rs::append::file::FileAppender;
use log4rs::append::Append;
use log4rs::encode::pattern::PatternEncoder;
use log4rs::encode::Encode;
use serde_json::json;
use std::sync::{Arc, Barrier, Mutex};

pub const SIZES: [usize; 12] = [0, 1, 2, 100, 1000, 1006, 1007, 1008, 1009, 1010, 4096, 70_000];

fn pick_encoder(rng: &mut Rng) -> (Box<dyn Encode>, bool, String) {
    match rng.below(5) {
        0 => (Box::new(PatternEncoder::new("{m}{n}")), false, "PatternEncoder({m}{n})".into()),
        1 => (Box::new(ChunkEnc { pieces: 1 }), true, "ChunkEnc(1)".into()),
        2 => (Box::new(ChunkEnc { pieces: 0 }), true, "ChunkEnc(5 bytes + rest)".into()),
        _ => {
            let k = 2 + rng.usize_below(49);
            (Box::new(ChunkEnc { pieces: k }), true, format!("ChunkEnc({})", k))
        }
    }
}

pub fn append_frame(app: &dyn Append, tid: u32, seq: u32, len: usize, with_newline: bool) -> Ack {
    let msg = message_for(tid, seq, len, with_newline);
    let inv = stamp();
    let r = trap::catch(|| {
        if tid == crate::frames::LITERAL_TID && !with_newline {
            macro_rules! lit {
                ($t:expr) => {
                    return app.append(&Record::builder().level(log::Level::Info).target("t").args(format_args!($t)).build())
                };
            }
            match (seq, len) {
                (0, 0) => lit!("<t7:s0:l0:>"),
                (1, 5) => lit!("<t7:s1:l5:LLLLL>"),
                (2, 40) => lit!("<t7:s2:l40:LLLLLLLLLLLLLLLLLLLLLLLLLLLLLLLLLLLLLLLL>"),
                (3, 100) => lit!("<t7:s3:l100:LLLLLLLLLLLLLLLLLLLLLLLLLLLLLLLLLLLLLLLLLLLLLLLLLLLLLLLLLLLLLLLLLLLLLLLLLLLLLLLLLLLLLLLLLLLLLLLLLLLL>"),
                _ => {}
            }
        }
        app.append(&Record::builder().level(log::Level::Info).target("t").args(format_args!("{}", msg)).build())
    });
    let ret = stamp();
    let ok = matches!(r, Ok(Ok(())));
    let mut a = Ack { id: FrameId { tid, seq }, inv, ret, ok, bytes: frame_len(tid, seq, len) };
    if let Err(p) = r {
        // encode the panic in the ack through a side channel: callers check `PANIC`
        PANIC.with(|c| *c.borrow_mut() = Some(format!("{} at {}", p.message, p.site())));
        a.ok = false;
    }
    a
}

thread_local! {
    pub static PANIC: std::cell::RefCell<Option<String>> = const { std::cell::RefCell::new(None) };
}

pub fn take_panic() -> Option<String> {
    PANIC.with(|c| c.borrow_mut().take())
}

fn single_history(rep: &mut Report, rng: &mut Rng, idx: u64) {
    let sc = Scratch::new("c04");
    let path = sc.join("dir/sub/app.log");
    // now and then the configured path is a symbolic link (current.log -> the dated file): the records belong
    // into the file behind it, in both open modes, and the link stays a link
    let symlinked = rng.chance(1, 6);
    let real = if symlinked { sc.join("real/2024-05-17.log") } else { path.clone() };
    if symlinked {
        std::fs::create_dir_all(path.parent().unwrap()).unwrap();
        std::fs::create_dir_all(real.parent().unwrap()).unwrap();
        std::os::unix::fs::symlink(&real, &path).unwrap();
        rep.count("histories_through_a_symbolic_link", 1);
    }
    let append_mode = rng.chance(2, 3);
    // pre-existing content: frames of an "old" writer (tid 900) or none
    let mut pre: Vec<u8> = vec![];
    let pre_kind = rng.below(3);
    if pre_kind > 0 {
        std::fs::create_dir_all(path.parent().unwrap()).unwrap();
        for s in 0..(1 + rng.usize_below(4)) as u32 {
            pre.extend(frame(900, s, *rng.pick(&SIZES[..10])));
        }
        std::fs::write(&real, &pre).unwrap();
    }
    let (enc, nl, enc_name) = pick_encoder(rng);
    // a quarter of the histories build the appender through the config-file machinery (kind: file);
    // an omitted `append` key means append (documented default)
    let via_config = !nl && rng.chance(1, 2);
    let append_key: Option<bool> = if via_config && append_mode && rng.chance(1, 2) { None } else { Some(append_mode) };
    let desc = json!({"append_mode": append_mode, "pre_existing_bytes": pre.len(), "encoder": enc_name, "path_is_a_symbolic_link": symlinked,
        "built_from_config_document": if via_config { Some(match append_key { Some(b) => format!("append: {}", b), None => "append key omitted".into() }) } else { None }});
    let app: Box<dyn Append> = if via_config {
        rep.count("histories_built_from_config_documents", 1);
        let doc = format!("path: '{}'\n{}encoder: {{pattern: '{{m}}{{n}}'}}\n", path.to_str().unwrap(),
            match append_key { Some(b) => format!("append: {}\n", b), None => String::new() });
        let value: serde_value::Value = serde_yaml::from_str(&doc).unwrap();
        match log4rs::config::Deserializers::default().deserialize::<dyn Append>("file", value) {
            Ok(a) => a,
            Err(e) => {
                rep.violation("C04:build-failed", json!({"case": desc, "error": format!("{:#}", e)}));
                return;
            }
        }
    } else {
        match FileAppender::builder().encoder(enc).append(append_mode).build(&path) {
            Ok(a) => Box::new(a),
            Err(e) => {
                rep.violation("C04:build-failed", json!({"case": desc, "error": e.to_string()}));
                return;
            }
        }
    };
    let after_open = std::fs::read(&real).unwrap_or_default();
    let mut expect: Vec<u8> = if append_mode { pre.clone() } else { vec![] };
    if after_open != expect {
        rep.violation(if append_mode { "C04:append-mode-lost-existing-content" } else { "C04:truncate-mode-kept-content-at-open" },
            json!({"case": desc, "file_after_open": show_bytes(&after_open), "expected": show_bytes(&expect)}));
        return;
    }
    if symlinked && !std::fs::symlink_metadata(&path).map(|m| m.file_type().is_symlink()).unwrap_or(false) {
        rep.violation("C04:symbolic-link-replaced-at-open", json!({"case": desc}));
        return;
    }
    let n = 1 + rng.usize_below(25);
    let mut sizes = vec![];
    // record terminator style: newline / none / newline followed by more text (verbatim encoders only)
    let wid: u32 = if nl { *rng.pick(&[1u32, 1, 301, 601]) } else { 1 };
    rep.observe("record_terminator_styles", &format!("{}", wid / 300));
    for seq in 0..n as u32 {
        let len = if rng.chance(3, 4) { *rng.pick(&SIZES[..]) } else { rng.usize_below(3000) };
        // a 70 KiB record only now and then
        let len = if len == 70_000 && !rng.chance(1, 4) { 1008 } else { len };
        sizes.push(len);
        let a = append_frame(&*app, wid, seq, len, nl);
        if let Some(p) = take_panic() {
            rep.violation("C04:panic:append", json!({"case": desc, "panic": p}));
            return;
        }
        if !a.ok {
            rep.violation("C04:append-failed", json!({"case": desc, "seq": seq}));
            return;
        }
        expect.extend(frame(wid, seq, len));
        rep.count("appends_observed_after_return", 1);
        // an independent reader must see the complete record as soon as append returned
        let got = std::fs::read(&real).unwrap_or_default();
        if got != expect {
            let sig = if got.len() < expect.len() && expect.starts_with(&got) {
                "C04:not-visible-at-return"
            } else {
                "C04:content-is-not-the-written-records"
            };
            rep.violation(sig, json!({"case": desc, "record_sizes": sizes, "after_append_seq": seq,
                "file_len": got.len(), "expected_len": expect.len(),
                "file_tail": show_bytes(&got[got.len().saturating_sub(120)..]),
                "expected_tail": show_bytes(&expect[expect.len().saturating_sub(120)..])}));
            return;
        }
    }
    drop(app);
    // reopen: append keeps everything, truncate discards only now
    let reopen_append = rng.chance(1, 2);
    let app2 = FileAppender::builder().encoder(Box::new(ChunkEnc { pieces: 1 })).append(reopen_append).build(&path);
    match app2 {
        Err(e) => rep.violation("C04:rebuild-failed", json!({"case": desc, "error": e.to_string()})),
        Ok(app2) => {
            let got = std::fs::read(&real).unwrap_or_default();
            let want: Vec<u8> = if reopen_append { expect.clone() } else { vec![] };
            if got != want {
                rep.violation(if reopen_append { "C04:reopen-append-lost-content" } else { "C04:reopen-truncate-kept-content" },
                    json!({"case": desc, "file_len": got.len(), "expected_len": want.len()}));
            }
            let a = append_frame(&app2, 2, 0, 10, true);
            let mut want2 = want;
            want2.extend(frame(2, 0, 10));
            let got2 = std::fs::read(&real).unwrap_or_default();
            if !a.ok || got2 != want2 {
                rep.violation("C04:content-after-reopen", json!({"case": desc, "file_len": got2.len(), "expected_len": want2.len()}));
            }
            rep.count("reopens_checked", 1);
        }
    }
    rep.case(&format!("single|{}|{:?}", desc, sizes), sizes.iter().any(|s| *s > 0));
    if idx < 2 {
        rep.sample(json!({"kind": "single-threaded history", "case": desc, "record_payload_sizes": sizes}));
    }
}

/// The log path leads to a device that accepts the open and refuses every write (ENOSPC): no append may be
/// acknowledged, because nothing it wrote can be read back.
fn full_device(rep: &mut Report, rng: &mut Rng, idx: u64) {
    if !std::path::Path::new("/dev/full").exists() {
        return;
    }
    let sc = Scratch::new("c04f");
    let path = sc.join("app.log");
    if std::os::unix::fs::symlink("/dev/full", &path).is_err() {
        return;
    }
    let (enc, nl, enc_name) = pick_encoder(rng);
    let app = match FileAppender::builder().encoder(enc).build(&path) {
        Ok(a) => a,
        Err(_) => return, // refusing to open it is fine too
    };
    let mut sizes = vec![];
    for seq in 0..(1 + rng.usize_below(6)) as u32 {
        let len = *rng.pick(&[1usize, 10, 100, 1000, 1100, 3000]);
        sizes.push(len);
        let a = append_frame(&app, 1, seq, len, nl);
        let _ = take_panic();
        rep.count("appends_to_a_full_device", 1);
        if a.ok {
            rep.violation("C04:acknowledged-although-the-write-failed", json!({"encoder": enc_name, "record_sizes": sizes,
                "what": "the log path is a link to /dev/full (every write fails with ENOSPC), yet append returned Ok"}));
            return;
        }
    }
    rep.case(&format!("full|{}|{:?}|{}", enc_name, sizes, idx), true);
}

/// Two live appenders on the same path (e.g. two generations of a configuration), used one after the
/// other: every acknowledged record must stay readable, in the order of the calls.
fn two_appenders(rep: &mut Report, rng: &mut Rng, idx: u64) {
    let sc = Scratch::new("c04t");
    let mut path = sc.join("shared.log");
    let mut expect: Vec<u8> = vec![];
    if rng.chance(1, 2) {
        expect.extend(frame(900, 0, 30));
        std::fs::write(&path, &expect).unwrap();
    } else if rng.chance(1, 2) {
        // the first appender has to create the directory
        path = sc.join("fresh/dir/shared.log");
        rep.count("two_appender_histories_in_a_directory_that_did_not_exist", 1);
    }
    let mk = || FileAppender::builder().encoder(Box::new(ChunkEnc { pieces: 1 })).build(&path);
    let (a, b) = match (mk(), mk()) {
        (Ok(a), Ok(b)) => (a, b),
        _ => {
            rep.inconclusive("cannot build two appenders on one path");
            return;
        }
    };
    let steps = 3 + rng.usize_below(12);
    let mut order = String::new();
    for seq in 0..steps as u32 {
        let use_a = rng.chance(1, 2);
        order.push(if use_a { 'a' } else { 'b' });
        let len = *rng.pick(&[0usize, 10, 100, 1100]);
        let tid = if use_a { 1 } else { 2 };
        let ack = append_frame(if use_a { &a } else { &b }, tid, seq, len, true);
        if let Some(p) = take_panic() {
            rep.violation("C04:panic:append", json!({"case": "two appenders on one path", "panic": p}));
            return;
        }
        if !ack.ok {
            rep.violation("C04:append-failed", json!({"case": "two appenders on one path"}));
            return;
        }
        expect.extend(frame(tid, seq, len));
        let got = std::fs::read(&path).unwrap_or_default();
        rep.count("appends_observed_after_return", 1);
        if got != expect {
            rep.violation("C04:two-appenders-on-one-path:acknowledged-record-overwritten-or-misplaced",
                json!({"call_order": order, "file_len": got.len(), "expected_len": expect.len(),
                       "file_tail": show_bytes(&got[got.len().saturating_sub(100)..]),
                       "expected_tail": show_bytes(&expect[expect.len().saturating_sub(100)..])}));
            return;
        }
    }
    rep.case(&format!("two|{}|{}", order, idx), true);
    rep.count("two_appender_histories", 1);
}

fn concurrent_run(rep: &mut Report, rng: &mut Rng, idx: u64, heavy: bool) {
    let sc = Scratch::new("c04c");
    let path = sc.join("app.log");
    let threads = 2 + rng.usize_below(if heavy { 15 } else { 7 });
    let per = if heavy { 200 + rng.usize_below(1800) } else { 30 + rng.usize_below(120) };
    let (enc, nl, enc_name) = pick_encoder(rng);
    let amplify = rng.chance(2, 3);
    let desc = json!({"threads": threads, "records_per_thread": per, "encoder": enc_name, "amplifier": amplify});
    let app = match FileAppender::builder().encoder(enc).build(&path) {
        Ok(a) => Arc::new(a),
        Err(e) => {
            rep.violation("C04:build-failed", json!({"case": desc, "error": e.to_string()}));
            return;
        }
    };
    let acks: Arc<Mutex<Vec<Ack>>> = Arc::new(Mutex::new(vec![]));
    let problems: Arc<Mutex<Vec<(String, String)>>> = Arc::new(Mutex::new(vec![]));
    let barrier = Arc::new(Barrier::new(threads));
    let seeds: Vec<u64> = (0..threads).map(|_| rng.next_u64()).collect();
    let hits_before = hooks::POINT_HITS.load(std::sync::atomic::Ordering::Relaxed);
    std::thread::scope(|s| {
        for t in 0..threads {
            let app = app.clone();
            let acks = acks.clone();
            let problems = problems.clone();
            let barrier = barrier.clone();
            let path = path.clone();
            let seed = seeds[t];
            s.spawn(move || {
                let mut r = Rng::new(seed);
                if amplify {
                    let mut hr = Rng::new(seed ^ 0x55);
                    hooks::set_local(Some(Box::new(move |_name, _arg| match hr.below(8) {
                        0 => std::thread::sleep(std::time::Duration::from_micros(50)),
                        1 | 2 => std::thread::yield_now(),
                        _ => {}
                    })));
                }
                let mut mine = vec![];
                barrier.wait();
                for seq in 0..per as u32 {
                    let len = if r.chance(1, 40) { 5000 } else { *r.pick(&SIZES[1..10]) };
                    let a = append_frame(&*app, t as u32 + 1, seq, len, nl);
                    if let Some(p) = take_panic() {
                        problems.lock().unwrap().push(("C04:panic:append".into(), p));
                    }
                    if !a.ok {
                        problems.lock().unwrap().push(("C04:append-failed".into(), format!("thread {} seq {}", t + 1, seq)));
                    }
                    // visibility at return: our complete frame must be readable right now
                    if seq % 16 == 0 && a.ok {
                        let f = frame(t as u32 + 1, seq, len);
                        let got = std::fs::read(&path).unwrap_or_default();
                        if !got.windows(f.len()).any(|w| w == &f[..]) {
                            problems.lock().unwrap().push(("C04:not-visible-at-return".into(),
                                format!("thread {} seq {}: frame not readable after append returned", t + 1, seq)));
                        }
                    }
                    mine.push(a);
                }
                hooks::set_local(None);
                acks.lock().unwrap().extend(mine);
            });
        }
    });
    let hits = hooks::POINT_HITS.load(std::sync::atomic::Ordering::Relaxed) - hits_before;
    rep.count("amplifier_hook_hits", hits as i64);
    for (sig, what) in problems.lock().unwrap().drain(..) {
        rep.violation(&sig, json!({"case": desc, "what": what}));
    }
    let acks = acks.lock().unwrap().clone();
    let bytes = std::fs::read(&path).unwrap_or_default();
    rep.count("concurrent_appends", acks.len() as i64);
    match parse_stream(&bytes) {
        Err(e) => rep.violation("C04:S:stream-not-whole-frames", json!({"case": desc, "what": e})),
        Ok(stream) => match check_stream(&stream, &acks, &StreamOpts { allow_oldest_lost: false }) {
            Err((sig, what)) => rep.violation(&format!("C04:{}", sig), json!({"case": desc, "what": what})),
            Ok(st) => {
                rep.count("frames_checked", st.frames as i64);
                rep.count("adjacent_cross_thread_pairs", st.adjacent_cross_thread_pairs as i64);
                rep.observe("thread_order_signatures", &st.order_signature.to_string());
            }
        },
    }
    rep.case(&format!("conc|{}|{}", desc, idx), true);
    if idx == 0 {
        rep.sample(json!({"kind": "concurrent run", "case": desc}));
    }
}

pub fn run(rep: &mut Report) {
    hooks::install();
    rep.rule = "single-threaded histories (open mode x pre-existing content x encoder [PatternEncoder {m}{n}, harness encoder writing \
        one record in 1..50 write calls] x 1-25 records with payload sizes 0,1,2,100, around the 1 KiB buffer, 4 KiB, 70 KiB, \
        random), the file read back by an independent reader after EVERY append and after reopen in either mode; concurrent \
        runs (2-16 threads x 30-2000 self-describing records, race amplifier yielding at the hook between encode and flush, own \
        frame looked up right after append returns) checked by the stream oracle: whole frames, none lost / duplicated, \
        per-thread order, real-time order; non-trivial = at least one non-empty record; distinct = distinct history / run".to_owned();
    rep.assume("the file is judged only after an append returned (single-threaded) or for the caller's own record (concurrent); a record larger than the 1 KiB buffer is legitimately written in several write(2) calls");
    let thorough = rep.tier == "thorough";
    run_cases(rep, "single", if thorough { 6000 } else { 1500 }, single_history);
    run_cases(rep, "two", if thorough { 2000 } else { 300 }, two_appenders);
    run_cases(rep, "full-device", if thorough { 400 } else { 60 }, full_device);
    // concurrent runs use many threads themselves: run them a few at a time
    let n = if thorough { 300 } else { 60 };
    let saved = std::env::var("L4V_JOBS").ok();
    std::env::set_var("L4V_JOBS", "3");
    run_cases(rep, "concurrent", n, |rep, rng, idx| concurrent_run(rep, rng, idx, thorough && idx % 4 == 0));
    match saved {
        Some(v) => std::env::set_var("L4V_JOBS", v),
        None => std::env::remove_var("L4V_JOBS"),
    }
    if rep.tier == "thorough" && std::env::var("L4V_NO_MIRI").is_err() && std::env::var("L4V_SUBRUN").is_err() {
        crate::miri::run_miri_seeds(rep, "C04", 48);
        rep.require(rep.counter("miri_seeds_run") >= 48 / 2, "fewer than half of the Miri seeds produced a result");
    }
    rep.require(rep.set_size("record_terminator_styles") == 3, "not all record terminator styles were exercised");
    rep.require(rep.counter("appends_observed_after_return") > 500, "fewer than 500 appends observed after return");
    rep.require(rep.counter("adjacent_cross_thread_pairs") > 10, "concurrent runs did not actually interleave threads");
    rep.require(rep.set_size("thread_order_signatures") >= 2, "fewer than 2 distinct thread orders observed");
    rep.require(rep.counter("amplifier_hook_hits") > 100, "the file.append.encoded hook was not reached");
}

/// Tiny concurrent run for Miri: 2-3 threads x 3-5 records, judged by the stream oracle.
pub fn miri_scenario(rep: &mut Report, rng: &mut Rng) {
    let sc = Scratch::new("c04m");
    let path = sc.join("app.log");
    let threads = 2 + rng.usize_below(2);
    let per = 3 + rng.usize_below(3);
    let app = match FileAppender::builder().encoder(Box::new(ChunkEnc { pieces: 2 })).build(&path) {
        Ok(a) => Arc::new(a),
        Err(e) => {
            rep.inconclusive(&format!("build failed under miri: {}", e));
            return;
        }
    };
    let acks: Arc<Mutex<Vec<Ack>>> = Arc::new(Mutex::new(vec![]));
    std::thread::scope(|s| {
        for t in 0..threads {
            let (app, acks) = (app.clone(), acks.clone());
            s.spawn(move || {
                let mut mine = vec![];
                for seq in 0..per as u32 {
                    mine.push(append_frame(&*app, t as u32 + 1, seq, if seq % 2 == 0 { 10 } else { 1100 }, true));
                    std::thread::yield_now();
                }
                acks.lock().unwrap().extend(mine);
            });
        }
    });
    let acks = acks.lock().unwrap().clone();
    if acks.iter().any(|a| !a.ok) {
        rep.violation("C04:miri:append-failed", json!({}));
    }
    let bytes = std::fs::read(&path).unwrap_or_default();
    match parse_stream(&bytes) {
        Err(e) => rep.violation("C04:S:stream-not-whole-frames", json!({"what": e, "under": "miri"})),
        Ok(stream) => match check_stream(&stream, &acks, &StreamOpts { allow_oldest_lost: false }) {
            Err((sig, what)) => rep.violation(&format!("C04:{}", sig), json!({"what": what, "under": "miri"})),
            Ok(st) => {
                rep.count("frames_checked", st.frames as i64);
                rep.count("adjacent_cross_thread_pairs", st.adjacent_cross_thread_pairs as i64);
                rep.observe("thread_order_signatures", &st.order_signature.to_string());
            }
        },
    }
}
