//! Glue between log4rs' `verif_hooks` registry (process-global) and
//! per-thread handlers of the harness, so that cases can run in parallel.

use chrono::{DateTime, Local};
use std::cell::RefCell;
use std::sync::atomic::{AtomicU64, Ordering};
use std::sync::{Arc, Once};

type Handler = Box<dyn FnMut(&'static str, u64)>;

thread_local! {
    static LOCAL: RefCell<Option<Handler>> = const { RefCell::new(None) };
    static CLOCK: RefCell<Option<DateTime<Local>>> = const { RefCell::new(None) };
}

static INSTALL: Once = Once::new();
pub static POINT_HITS: AtomicU64 = AtomicU64::new(0);

pub fn install() {
    INSTALL.call_once(|| {
        log4rs::verif::set_point_hook(Some(Arc::new(|name, arg| {
            POINT_HITS.fetch_add(1, Ordering::Relaxed);
            // take the handler out while it runs so that a re-entrant point is a no-op
            let h = LOCAL.with(|l| l.borrow_mut().take());
            if let Some(mut h) = h {
                h(name, arg);
                LOCAL.with(|l| {
                    let mut slot = l.borrow_mut();
                    if slot.is_none() {
                        *slot = Some(h);
                    }
                });
            }
        })));
        log4rs::verif::set_clock_hook(Some(Arc::new(|| CLOCK.with(|c| *c.borrow()))));
    });
}

/// Installs (or clears) the point handler of the current thread.
pub fn set_local(h: Option<Handler>) {
    install();
    LOCAL.with(|l| *l.borrow_mut() = h);
}

/// Sets (or clears) the driven clock of the current thread.
pub fn set_clock(t: Option<DateTime<Local>>) {
    install();
    CLOCK.with(|c| *c.borrow_mut() = t);
}
