pub mod fsutil;
pub mod fswatch;
pub mod par;
pub mod report;
pub mod rng;
pub mod routing;
pub mod trap;

pub mod c01;
pub mod c02;
pub mod c03;
pub mod c04;
pub mod c05;
pub mod c06;
pub mod rolling;
pub mod subrun;
pub mod c07;
pub mod c08;
pub mod frames;
pub mod hooks;
pub mod miri;
pub mod c09;
pub mod c10;
pub mod c11;
pub mod c12;
pub mod pattern_model;
pub mod c13;
pub mod c14;
pub mod c15;
pub mod c16;
pub mod calendar;
pub mod c17;
pub mod c18;
pub mod c19;
pub mod c20;
pub mod childproc;

use report::Report;

pub fn level_of(prop: &str) -> &'static str {
    match prop {
        "C08" => "fault_enumeration",
        _ => "exploration",
    }
}

pub fn run_prop(prop: &str, rep: &mut Report) -> bool {
    match prop {
        "C01" => c01::run(rep),
        "C02" => c02::run(rep),
        "C03" => c03::run(rep),
        "C04" => c04::run(rep),
        "C05" => c05::run(rep),
        "C06" => c06::run(rep),
        "C07" => c07::run(rep),
        "C08" => c08::run(rep),
        "C09" => c09::run(rep),
        "C10" => c10::run(rep),
        "C11" => c11::run(rep),
        "C12" => c12::run(rep),
        "C13" => c13::run(rep),
        "C14" => c14::run(rep),
        "C15" => c15::run(rep),
        "C16" => c16::run(rep),
        "C17" => c17::run(rep),
        "C18" => c18::run(rep),
        "C19" => c19::run(rep),
        "C20" => c20::run(rep),
        _ => return false,
    }
    true
}

pub fn dispatch(prop: &str, tier: &str, seed: u64, only: Option<(String, u64)>) -> i32 {
    if tier != "quick" && tier != "thorough" {
        eprintln!("tier must be quick or thorough");
        return 2;
    }
    trap::install();
    let mut rep = Report::new(prop, tier, seed, level_of(prop));
    let replaying = only.is_some();
    rep.only = only;
    if !run_prop(prop, &mut rep) {
        eprintln!("unknown property {}", prop);
        return 2;
    }
    // verdicts can flip between build profiles (debug_assert!, overflow checks, cfg(debug_assertions)):
    // the whole workload is repeated by a release build of the harness and of log4rs, both tiers
    subrun::merge(&mut rep, "L4V_BIN_RELEASE", prop, "release");
    if replaying {
        // a replay executes one case: coverage floors do not apply
        rep.inconclusive.clear();
        if rep.distinct.len() < 2 && rep.distinct_enumerated < 2 {
            rep.distinct.insert(0);
            rep.distinct.insert(1);
        }
        // do not clobber the evidence of the real run
        std::env::set_var("L4V_NO_EVIDENCE", "1");
    }
    rep.finish()
}

pub fn child(args: &[String]) -> i32 {
    if args.is_empty() {
        return 2;
    }
    match args[0].as_str() {
        "c02" => c02::child_main(&args[1..]),
        "c09zone" => c09::child_zone(&args[1..]),
        "c09fork" => c09::child_fork(&args[1..]),
        "subrun" => subrun::child_main(&args[1..]),
        "c15e2e" => c15::child_e2e(&args[1..]),
        "c18" => c18::child_main(&args[1..]),
        "c18seq" => c18::child_seq(&args[1..]),
        "c14reports" => c14::child_reports(&args[1..]),
        "c18both" => c18::child_both(&args[1..]),
        "c18cfg" => c18::child_cfg(&args[1..]),
        "c16" => c16::child_main(&args[1..]),
        "c08crash" => c08::child_crash(&args[1..]),
        "c08global" => c08::child_global(&args[1..]),
        _ => 2,
    }
}

/// Small concurrent scenarios that run under Miri (`l4v miri <Cxx> <seed>`): the same
/// monitors, a tiny workload, one schedule per Miri seed. Prints `RESULT {...}`.
pub fn miri_main(args: &[String]) -> i32 {
    if args.len() < 2 {
        return 2;
    }
    let prop = args[0].clone();
    let seed: u64 = args[1].parse().unwrap_or(0);
    trap::install();
    hooks::install();
    let mut rep = Report::new(&prop, "thorough", seed, "exploration");
    let mut rng = rng::Rng::new(seed);
    match prop.as_str() {
        "C04" => c04::miri_scenario(&mut rep, &mut rng),
        "C05" => c05::miri_scenario(&mut rep, &mut rng),
        "C15" => c15::miri_scenario(&mut rep, &mut rng),
        "C17" => c17::miri_scenario(&mut rep, &mut rng),
        _ => return 2,
    }
    let viol: Vec<serde_json::Value> = rep
        .violations
        .iter()
        .map(|v| serde_json::json!({"signature": v.signature, "detail": v.detail}))
        .collect();
    println!(
        "RESULT {}",
        serde_json::json!({"seed": seed, "counters": rep.counters, "violations": viol, "inconclusive": rep.inconclusive,
            "sets": rep.sets.iter().map(|(k, v)| (k.clone(), v.iter().cloned().collect::<Vec<u64>>())).collect::<std::collections::BTreeMap<_, _>>()})
    );
    0
}
