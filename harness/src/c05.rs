//! C05 — rolling appender never loses, duplicates, reorders or splits records.
//! Also hosts the single-threaded exact engine reused by C06, C08 and C17.

use crate::c04::{append_frame, take_panic};
use crate::c07::Comp;
use crate::frames::*;
use crate::fsutil::Scratch;
use crate::hooks;
use crate::par::run_cases;
use crate::report::Report;
use crate::rng::Rng;
use crate::rolling::*;
use chrono::{Duration, Local, TimeZone};
use log4rs::append::rolling_file::policy::compound::trigger::onstartup::OnStartUpTrigger;
use log4rs::append::rolling_file::policy::compound::trigger::size::SizeTrigger;
use log4rs::append::rolling_file::policy::compound::trigger::time::{TimeTrigger, TimeTriggerInterval};
use log4rs::append::rolling_file::policy::compound::trigger::Trigger;
use log4rs::append::Append;
use log4rs::encode::pattern::PatternEncoder;
use log4rs::encode::Encode;
use serde_json::{json, Value};
use std::collections::VecDeque;
use std::path::PathBuf;
use std::sync::{Arc, Barrier, Mutex};

#[derive(Clone, Debug)]
pub enum TrigSpec {
    Size(u64),
    OnStartUp(u64),
    /// real time trigger on the driven clock: seconds interval
    TimeSecs(i64, bool),
    Script { pre: bool, decisions: Vec<bool> },
}

impl TrigSpec {
    pub fn describe(&self) -> Value {
        match self {
            TrigSpec::Size(n) => json!({"size": n}),
            TrigSpec::OnStartUp(n) => json!({"onstartup_min_size": n}),
            TrigSpec::TimeSecs(n, m) => json!({"time_seconds": n, "modulate": m}),
            TrigSpec::Script { pre, decisions } => json!({"scripted": {"pre_process": pre,
                "decisions": decisions.iter().map(|b| if *b { '1' } else { '0' }).collect::<String>()}}),
        }
    }
    pub fn is_pre(&self) -> bool {
        match self {
            TrigSpec::Size(_) => false,
            TrigSpec::OnStartUp(_) | TrigSpec::TimeSecs(..) => true,
            TrigSpec::Script { pre, .. } => *pre,
        }
    }
}

pub struct Engine {
    pub root: PathBuf,
    pub append_mode: bool,
    pub roller: RollerKind,
    pub trig: TrigSpec,
    pub enc_kind: u64,
    pub dec_log: Arc<Mutex<Vec<Decision>>>,
    pub script_left: Arc<Mutex<VecDeque<bool>>>,
    pub app: Option<Box<dyn Append>>,
    /// `Some(x)`: the appender is built from a config document with `append: x` (`None` = key omitted)
    pub via_config: Option<Option<bool>>,
    pub active: Option<Vec<u8>>,
    pub win: WinModel,
    pub acks: Vec<Ack>,
    pub ops: Vec<String>,
    pub rotations: u64,
    pub consultations: u64,
    pub unconsulted_appends: u64,
    pub with_newline: bool,
    /// every decision seen, for C06
    pub decisions_seen: Vec<Decision>,
}

pub type Fail = (String, String);

impl Engine {
    pub fn new(root: PathBuf, append_mode: bool, roller: RollerKind, trig: TrigSpec, enc_kind: u64) -> Engine {
        let script = match &trig {
            TrigSpec::Script { decisions, .. } => decisions.iter().cloned().collect(),
            _ => VecDeque::new(),
        };
        Engine {
            root,
            append_mode,
            roller,
            trig,
            enc_kind,
            dec_log: Arc::new(Mutex::new(vec![])),
            script_left: Arc::new(Mutex::new(script)),
            app: None,
            via_config: None,
            active: None,
            win: WinModel::default(),
            acks: vec![],
            ops: vec![],
            rotations: 0,
            consultations: 0,
            unconsulted_appends: 0,
            with_newline: true,
            decisions_seen: vec![],
        }
    }

    pub fn describe(&self) -> Value {
        json!({"open_mode": if self.append_mode { "append" } else { "truncate" }, "trigger": self.trig.describe(),
            "roller": self.roller.describe(), "encoder": self.enc_kind, "built_from_config_document": self.via_config.map(|k| match k { Some(b) => format!("append: {}", b), None => "append key omitted".to_owned() }), "operations": self.ops.join(" ")})
    }

    fn encoder(&mut self) -> Box<dyn Encode> {
        match self.enc_kind {
            0 => {
                self.with_newline = false;
                Box::new(PatternEncoder::new("{m}{n}"))
            }
            99 => {
                // a short prefix followed by the rest in one chunk
                self.with_newline = true;
                Box::new(ChunkEnc { pieces: 0 })
            }
            k => {
                self.with_newline = true;
                Box::new(ChunkEnc { pieces: k as usize })
            }
        }
    }

    fn trigger(&self) -> Box<dyn Trigger> {
        let inner: Box<dyn Trigger> = match &self.trig {
            TrigSpec::Size(n) => Box::new(SizeTrigger::new(*n)),
            TrigSpec::OnStartUp(n) => Box::new(OnStartUpTrigger::new(*n)),
            TrigSpec::TimeSecs(n, m) => Box::new(TimeTrigger::new(TimeTrigger::verif_config(TimeTriggerInterval::Second(*n), *m, 0))),
            TrigSpec::Script { pre, .. } => {
                // the remaining script survives restarts
                let left: VecDeque<bool> = self.script_left.lock().unwrap().clone();
                Box::new(SharedScript { pre: *pre, left: self.script_left.clone(), _init: left })
            }
        };
        Box::new(RecTrigger { inner, log: self.dec_log.clone() })
    }

    /// Builds (or rebuilds) the appender on the same path.
    pub fn open(&mut self) -> Result<(), Fail> {
        self.app = None; // drop first: flushes and closes
        let enc = self.encoder();
        if let Some(app_key) = self.via_config {
            // same appender, but constructed by the config-file machinery
            // the real trigger of that kind, built by its own deserializer, inside the recording wrapper
            let inner = match &self.trig {
                TrigSpec::Size(n) => format!("{{kind: size, limit: {}}}", n),
                // the documented default of min_size is 1: leave the key out for it now and then
                TrigSpec::OnStartUp(1) if self.ops.len() % 2 == 0 => "{kind: onstartup}".to_owned(),
                TrigSpec::OnStartUp(m) => format!("{{kind: onstartup, min_size: {}}}", m),
                _ => return Err(("INCONCLUSIVE".into(), "via_config supports the size and on-start-up triggers only".into())),
            };
            self.with_newline = false;
            let roller = match &self.roller {
                RollerKind::Delete => "{kind: delete}".to_owned(),
                RollerKind::Window { base, count, pattern_rel, .. } => format!(
                    "{{kind: fixed_window, pattern: '{}/{}', base: {}, count: {}}}",
                    self.root.to_str().unwrap(), pattern_rel, base, count),
            };
            let doc = format!(
                "path: '{}/{}'\n{}encoder: {{pattern: '{{m}}{{n}}'}}\npolicy:\n  trigger: {{kind: rec_wrap, inner: {}}}\n  roller: {}\n",
                self.root.to_str().unwrap(), ACTIVE,
                match app_key { Some(b) => format!("append: {}\n", b), None => String::new() },
                inner, roller);
            let value: serde_value::Value = serde_yaml::from_str(&doc).map_err(|e| ("INCONCLUSIVE".to_owned(), format!("harness yaml: {}", e)))?;
            let mut d = log4rs::config::Deserializers::default();
            d.insert("rec_size", RecSizeDeser);
            d.insert("rec_wrap", RecWrapDeser);
            CURRENT_LOG.with(|c| *c.borrow_mut() = Some(self.dec_log.clone()));
            let app = crate::trap::catch(|| d.deserialize::<dyn Append>("rolling_file", value));
            CURRENT_LOG.with(|c| *c.borrow_mut() = None);
            match app {
                Err(p) => return Err((format!("panic:build:{}", p.site()), p.message)),
                Ok(Err(e)) => return Err(("build-from-config-failed".into(), format!("{:#}", e))),
                Ok(Ok(a)) => self.app = Some(a),
            }
        } else {
            let roller = self.roller.build(&self.root).map_err(|e| ("roller-build-failed".to_owned(), e.to_string()))?;
            let app = crate::trap::catch(|| build_appender(&self.root, self.append_mode, enc, self.trigger(), roller));
            let app = match app {
                Err(p) => return Err((format!("panic:build:{}", p.site()), p.message)),
                Ok(Err(e)) => return Err(("build-failed".into(), e.to_string())),
                Ok(Ok(a)) => a,
            };
            self.app = Some(Box::new(app));
        }
        self.ops.push(if self.ops.is_empty() { "open".into() } else { "restart".into() });
        self.active = Some(match (self.append_mode, self.active.take()) {
            (true, Some(x)) => x,
            _ => vec![],
        });
        self.check_dir()
    }

    pub fn check_dir(&self) -> Result<(), Fail> {
        compare_dir(&dir_files(&self.root), &self.roller, &self.win, &self.active)
    }

    /// One append through the real appender, mirrored in the model.
    pub fn append(&mut self, tid: u32, seq: u32, len: Option<usize>) -> Result<(), Fail> {
        let app: &dyn Append = &**self.app.as_ref().expect("engine not open");
        let before = self.dec_log.lock().unwrap().len();
        let (ack, bytes) = match len {
            Some(l) => (append_frame(app, tid, seq, l, self.with_newline), frame(tid, seq, l)),
            None => {
                // an empty record (no bytes at all); only meaningful with the chunk encoder
                let inv = stamp();
                let r = crate::trap::catch(|| {
                    app.append(&log::Record::builder().level(log::Level::Info).args(format_args!("")).build())
                });
                let ret = stamp();
                let extra: Vec<u8> = if self.with_newline { vec![] } else { b"\n".to_vec() };
                if let Err(p) = &r {
                    crate::c04::PANIC.with(|c| *c.borrow_mut() = Some(format!("{} at {}", p.message, p.site())));
                }
                (Ack { id: FrameId { tid, seq }, inv, ret, ok: matches!(r, Ok(Ok(()))), bytes: 0 }, extra)
            }
        };
        self.ops.push(match len {
            Some(l) => format!("a{}", l),
            None => "a-".into(),
        });
        if let Some(p) = take_panic() {
            return Err(("panic:append".into(), p));
        }
        if !ack.ok {
            return Err(("append-failed".into(), format!("append of {:?} returned Err on a healthy directory", ack.id)));
        }
        let decisions: Vec<Decision> = self.dec_log.lock().unwrap()[before..].to_vec();
        self.consultations += decisions.len() as u64;
        self.decisions_seen.extend(decisions.iter().cloned());
        if decisions.len() > 1 {
            return Err(("INCONCLUSIVE".into(), format!("the policy was consulted {} times during one append; the exact model assumes at most once", decisions.len())));
        }
        // not consulted at all: nothing can have been rotated (whether that is acceptable is C06's question)
        if decisions.is_empty() {
            self.unconsulted_appends += 1;
        }
        let fire = decisions.first().map(|d| matches!(d.result, Ok(true))).unwrap_or(false);
        if self.trig.is_pre() {
            if fire {
                let old = self.active.take().unwrap_or_default();
                self.win.roll(&self.roller, old);
                self.rotations += 1;
            }
            let a = self.active.get_or_insert_with(Vec::new);
            a.extend_from_slice(&bytes);
        } else {
            let a = self.active.get_or_insert_with(Vec::new);
            a.extend_from_slice(&bytes);
            if fire {
                let old = self.active.take().unwrap_or_default();
                self.win.roll(&self.roller, old);
                self.rotations += 1;
            }
        }
        if ack.bytes > 0 {
            self.acks.push(ack);
        }
        self.check_dir()
    }

    /// The stream oracle on top of the exact comparison (exercises S on real data).
    pub fn check_stream(&self) -> Result<StreamStats, Fail> {
        let files = dir_files(&self.root);
        let bytes = read_stream(&files, &self.roller).map_err(|e| ("archive-does-not-decode".to_owned(), e))?;
        let parsed = parse_stream(&bytes).map_err(|e| ("S:stream-not-whole-frames".to_owned(), e))?;
        check_stream(&parsed, &self.acks, &StreamOpts { allow_oldest_lost: true })
    }
}

thread_local! {
    static CURRENT_LOG: std::cell::RefCell<Option<Arc<Mutex<Vec<Decision>>>>> = const { std::cell::RefCell::new(None) };
}

#[derive(serde::Deserialize)]
pub struct RecSizeCfg {
    limit: u64,
}

/// Config-file kind `rec_size`: the real size trigger inside the recording wrapper.
pub struct RecSizeDeser;

impl log4rs::config::Deserialize for RecSizeDeser {
    type Trait = dyn Trigger;
    type Config = RecSizeCfg;
    fn deserialize(&self, c: RecSizeCfg, _: &log4rs::config::Deserializers) -> anyhow::Result<Box<dyn Trigger>> {
        let log = CURRENT_LOG.with(|l| l.borrow().clone()).unwrap_or_default();
        Ok(Box::new(RecTrigger { inner: Box::new(SizeTrigger::new(c.limit)), log }))
    }
}

#[derive(serde::Deserialize)]
pub struct RecWrapCfg {
    inner: std::collections::BTreeMap<serde_value::Value, serde_value::Value>,
}

/// Config-file kind `rec_wrap`: whatever trigger `inner` describes, built by the deserializer registered
/// for its kind, inside the recording wrapper.
pub struct RecWrapDeser;

impl log4rs::config::Deserialize for RecWrapDeser {
    type Trait = dyn Trigger;
    type Config = RecWrapCfg;
    fn deserialize(&self, mut c: RecWrapCfg, d: &log4rs::config::Deserializers) -> anyhow::Result<Box<dyn Trigger>> {
        let kind = match c.inner.remove(&serde_value::Value::String("kind".into())) {
            Some(serde_value::Value::String(k)) => k,
            _ => anyhow::bail!("rec_wrap: inner trigger has no kind"),
        };
        let inner = d.deserialize::<dyn Trigger>(&kind, serde_value::Value::Map(c.inner))?;
        let log = CURRENT_LOG.with(|l| l.borrow().clone()).unwrap_or_default();
        Ok(Box::new(RecTrigger { inner, log }))
    }
}

/// Scripted trigger whose remaining decisions are shared with the engine (survive restarts).
#[derive(Debug)]
struct SharedScript {
    pre: bool,
    left: Arc<Mutex<VecDeque<bool>>>,
    _init: VecDeque<bool>,
}

impl Trigger for SharedScript {
    fn trigger(&self, _f: &log4rs::append::rolling_file::LogFile) -> anyhow::Result<bool> {
        Ok(self.left.lock().unwrap().pop_front().unwrap_or(false))
    }
    fn is_pre_process(&self) -> bool {
        self.pre
    }
}

pub fn sizes_around(limit: u64, rng: &mut Rng) -> Option<usize> {
    // payload sizes so that whole frames land around the limit and the 1 KiB buffer
    let overhead = 14usize;
    // (a limit may be as large as u64::MAX: "never roll")
    let l = limit.min(6000) as usize;
    match rng.below(12) {
        0 => None, // empty record
        1 => Some(0),
        2 => Some(1),
        3 => Some(l.saturating_sub(overhead + 1)),
        4 => Some(l.saturating_sub(overhead)),
        5 => Some(l.saturating_sub(overhead).saturating_add(1).min(9000)),
        6 => Some(1024 - overhead - 1 + rng.usize_below(3)),
        7 => Some((l / 3).min(3000)),
        8 => Some((l.saturating_mul(2)).min(5000)),
        _ => Some(rng.usize_below(120)),
    }
}

fn gen_trigger(rng: &mut Rng, n_ops: usize) -> TrigSpec {
    match rng.below(10) {
        0..=3 => TrigSpec::Size(*rng.pick(&[0u64, 1, 15, 16, 17, 40, 100, 1023, 1024, 1025, 3000])),
        4 => TrigSpec::OnStartUp(*rng.pick(&[0u64, 1, 2, 100])),
        5 | 6 => TrigSpec::TimeSecs(*rng.pick(&[1i64, 2, 5, 60]), rng.chance(1, 2)),
        _ => TrigSpec::Script {
            pre: rng.chance(1, 2),
            decisions: (0..n_ops + 4).map(|_| rng.chance(1, 3)).collect(),
        },
    }
}

fn single_history(rep: &mut Report, rng: &mut Rng, idx: u64) {
    let sc = Scratch::new("c05");
    let mut n_ops = 5 + rng.usize_below(60);
    let mut trig = gen_trigger(rng, n_ops);
    let mut roller = gen_roller(rng, true);
    // now and then: files of hundreds of KiB of poorly compressible text into compressed archives
    let big = cfg!(feature = "full") && rng.chance(1, 20);
    if big {
        n_ops = 6 + rng.usize_below(8);
        trig = TrigSpec::Size(*rng.pick(&[70_000u64, 150_000, 300_000]));
        let comp = if rng.chance(1, 2) { crate::c07::Comp::Gz } else { crate::c07::Comp::Zst };
        roller = crate::rolling::RollerKind::Window { base: 0, count: *rng.pick(&[1u32, 2, 3]), comp,
            pattern_rel: if comp == crate::c07::Comp::Gz { "arch/app.{}.log.gz".into() } else { "arch/app.{}.log.zst".into() } };
        rep.count("histories_with_large_compressed_archives", 1);
    }
    let append_mode = rng.chance(3, 4);
    let enc_kind = *rng.pick(&[0u64, 1, 1, 3, 17, 99, 99]);
    let mut e = Engine::new(sc.path.clone(), append_mode, roller, trig.clone(), enc_kind);
    if matches!(trig, TrigSpec::Size(_)) && rng.chance(1, 3) {
        // built by the config-file machinery; `append` omitted means append (documented default)
        e.via_config = Some(if append_mode && rng.chance(1, 2) { None } else { Some(append_mode) });
        e.enc_kind = 0;
        rep.count("histories_built_from_config_documents", 1);
    }
    let enc_kind = e.enc_kind;
    // pre-existing active file (frames of an older writer) and archives
    if rng.chance(1, 2) {
        let mut pre = vec![];
        for s in 0..(1 + rng.usize_below(3)) as u32 {
            let l = rng.usize_below(60);
            pre.extend(frame(800, s, l));
            e.acks.push(Ack { id: FrameId { tid: 800, seq: s }, inv: 0, ret: 0, ok: true, bytes: frame_len(800, s, l) });
        }
        std::fs::write(sc.join(ACTIVE), &pre).unwrap();
        if append_mode {
            e.active = Some(pre);
        } else {
            // truncate mode discards it at open; those frames are not part of the stream
            e.acks.clear();
        }
    }
    let mut clock = Local.with_ymd_and_hms(2024, 5, 17, 10, 0, 0).unwrap();
    hooks::set_clock(Some(clock));
    let finish = |rep: &mut Report, e: &Engine, r: Result<(), Fail>| {
        if let Err((sig, what)) = r {
            if sig == "INCONCLUSIVE" {
                rep.inconclusive(&what);
            } else {
                rep.violation(&format!("C05:{}", sig), json!({"history": e.describe(), "what": what}));
            }
            return false;
        }
        true
    };
    let r = e.open();
    if !finish(rep, &e, r) {
        hooks::set_clock(None);
        return;
    }
    let limit = match &trig {
        TrigSpec::Size(n) => *n,
        _ => 200,
    };
    let mut seq = 0u32;
    for _ in 0..n_ops {
        if let TrigSpec::TimeSecs(n, _) = &trig {
            clock = clock + Duration::milliseconds(rng.range(0, 1500 * *n) as i64);
            hooks::set_clock(Some(clock));
        }
        if append_mode && rng.chance(1, 12) {
            let r = e.open(); // restart on the same path
            if !finish(rep, &e, r) {
                hooks::set_clock(None);
                return;
            }
            rep.count("restarts", 1);
            continue;
        }
        let len = if big && rng.chance(1, 3) {
            // a record whose encoded size is exactly 2^16 or 2^17 bytes (16-bit byte counters wrap to zero)
            let total = *rng.pick(&[65_536usize, 131_072]);
            (total - 40..total).find(|l| frame_len(1, seq, *l) == total)
        } else if big {
            Some(20_000 + rng.usize_below(60_000))
        } else {
            sizes_around(limit, rng)
        };
        let len = if enc_kind == 0 && len.is_none() { Some(0) } else { len };
        let r = e.append(1, seq, len);
        seq += 1;
        rep.count("appends_with_exact_directory_check", 1);
        if !finish(rep, &e, r) {
            hooks::set_clock(None);
            return;
        }
    }
    hooks::set_clock(None);
    match e.check_stream() {
        Ok(st) => rep.count("frames_checked", st.frames as i64),
        Err((sig, what)) => rep.violation(&format!("C05:{}", sig), json!({"history": e.describe(), "what": what})),
    }
    rep.count("rotations_observed", e.rotations as i64);
    rep.observe("trigger_kinds", &format!("{:?}", std::mem::discriminant(&trig)));
    rep.case(&e.describe().to_string(), e.rotations > 0);
    if idx < 3 {
        rep.sample(e.describe());
    }
}

/// A successor appender is built on the same path while its predecessor is still alive and still written
/// to (the order a reconfiguration uses): every acknowledged record stays whole and in call order.
fn overlapping_restart(rep: &mut Report, rng: &mut Rng, idx: u64) {
    use log4rs::append::rolling_file::policy::compound::trigger::size::SizeTrigger;
    let sc = Scratch::new("c05o");
    let mk = |sc: &Scratch| crate::rolling::build_appender(&sc.path, true, Box::new(crate::frames::ChunkEnc { pieces: 1 }),
        Box::new(SizeTrigger::new(1 << 40)), Box::new(log4rs::append::rolling_file::policy::compound::roll::delete::DeleteRoller::new()));
    let mut expect: Vec<u8> = vec![];
    let mut live: Vec<(u32, log4rs::append::rolling_file::RollingFileAppender)> = vec![];
    let mut next_tid = 1u32;
    let mut seq = 0u32;
    let mut order = String::new();
    match mk(&sc) {
        Ok(a) => live.push((next_tid, a)),
        Err(e) => {
            rep.inconclusive(&format!("cannot build a rolling appender: {}", e));
            return;
        }
    }
    for _ in 0..(6 + rng.usize_below(20)) {
        match rng.below(5) {
            0 if live.len() < 3 => {
                next_tid += 1;
                match mk(&sc) {
                    Ok(a) => live.push((next_tid, a)),
                    Err(e) => {
                        rep.violation("C05:overlapping-restart:build-failed", json!({"order": order, "error": e.to_string()}));
                        return;
                    }
                }
                order.push_str(" +new");
            }
            1 if live.len() > 1 => {
                live.remove(0);
                order.push_str(" -old");
            }
            _ => {
                let k = rng.usize_below(live.len());
                let (tid, app) = &live[k];
                let len = *rng.pick(&[0usize, 7, 100, 1100]);
                let a = append_frame(app, *tid, seq, len, true);
                if let Some(p) = take_panic() {
                    rep.violation("C05:panic:append", json!({"order": order, "panic": p}));
                    return;
                }
                if !a.ok {
                    rep.violation("C05:append-failed", json!({"order": order}));
                    return;
                }
                expect.extend(frame(*tid, seq, len));
                order.push_str(&format!(" w{}", tid));
                seq += 1;
                rep.count("appends_with_overlapping_appenders", 1);
                let got = std::fs::read(sc.join(ACTIVE)).unwrap_or_default();
                if got != expect {
                    rep.violation("C05:overlapping-restart:acknowledged-record-overwritten-or-misplaced", json!({"order": order,
                        "file_len": got.len(), "expected_len": expect.len(),
                        "file_tail": crate::fsutil::show_bytes(&got[got.len().saturating_sub(100)..]),
                        "expected_tail": crate::fsutil::show_bytes(&expect[expect.len().saturating_sub(100)..])}));
                    return;
                }
            }
        }
    }
    rep.case(&format!("overlap|{}|{}", order, idx), true);
}

fn concurrent_run(rep: &mut Report, rng: &mut Rng, idx: u64) {
    let sc = Scratch::new("c05c");
    let threads = 2 + rng.usize_below(7);
    let per = 40 + rng.usize_below(200);
    let limit = *rng.pick(&[0u64, 100, 1024, 3000, 20_000]);
    let mut roller = gen_roller(rng, true);
    if let RollerKind::Window { count, .. } = &mut roller {
        // mostly large windows, so that enough of the interleaved stream is retained to be judged
        *count = *rng.pick(&[1u32, 2, 5, 40, 40, 200]);
    }
    let kind = roller.clone();
    let enc_kind = *rng.pick(&[0u64, 1, 5, 99]);
    let desc = json!({"threads": threads, "records_per_thread": per, "size_limit": limit, "roller": roller.describe(), "encoder": enc_kind});
    let mut e = Engine::new(sc.path.clone(), true, roller, TrigSpec::Size(limit), enc_kind);
    if let Err((sig, what)) = e.open() {
        rep.violation(&format!("C05:{}", sig), json!({"run": desc, "what": what}));
        return;
    }
    let app: Arc<Box<dyn Append>> = Arc::new(e.app.take().unwrap());
    let nl = e.with_newline;
    let acks: Arc<Mutex<Vec<Ack>>> = Arc::new(Mutex::new(vec![]));
    let problems: Arc<Mutex<Vec<(String, String)>>> = Arc::new(Mutex::new(vec![]));
    let barrier = Arc::new(Barrier::new(threads));
    let seeds: Vec<u64> = (0..threads).map(|_| rng.next_u64()).collect();
    std::thread::scope(|s| {
        for t in 0..threads {
            let (app, acks, problems, barrier, seed) = (app.clone(), acks.clone(), problems.clone(), barrier.clone(), seeds[t]);
            s.spawn(move || {
                let mut r = Rng::new(seed);
                let mut hr = Rng::new(seed ^ 0x77);
                hooks::set_local(Some(Box::new(move |_n, _a| {
                    if hr.below(6) == 0 {
                        std::thread::yield_now()
                    }
                })));
                let mut mine = vec![];
                barrier.wait();
                for seq in 0..per as u32 {
                    let len = *r.pick(&[0usize, 5, 20, 60, 200, 1010, 1500]);
                    let a = append_frame(&**app, t as u32 + 1, seq, len, nl);
                    if let Some(p) = take_panic() {
                        problems.lock().unwrap().push(("C05:panic:append".into(), p));
                    }
                    if !a.ok {
                        problems.lock().unwrap().push(("C05:append-failed".into(), format!("thread {} seq {}", t + 1, seq)));
                    }
                    mine.push(a);
                }
                hooks::set_local(None);
                acks.lock().unwrap().extend(mine);
            });
        }
    });
    drop(app);
    for (sig, what) in problems.lock().unwrap().drain(..) {
        rep.violation(&sig, json!({"run": desc, "what": what}));
    }
    let acks = acks.lock().unwrap().clone();
    rep.count("concurrent_appends", acks.len() as i64);
    let files = dir_files(&sc.path);
    let res = read_stream(&files, &kind)
        .map_err(|e| ("archive-does-not-decode".to_owned(), e))
        .and_then(|b| parse_stream(&b).map_err(|e| ("S:stream-not-whole-frames".to_owned(), e)))
        .and_then(|p| check_stream(&p, &acks, &StreamOpts { allow_oldest_lost: true }));
    match res {
        Err((sig, what)) => rep.violation(&format!("C05:{}", sig), json!({"run": desc, "what": what,
            "files": files.iter().map(|(k, v)| format!("{} ({} bytes)", k, v.len())).collect::<Vec<_>>()})),
        Ok(st) => {
            rep.count("frames_checked", st.frames as i64);
            rep.count("adjacent_cross_thread_pairs", st.adjacent_cross_thread_pairs as i64);
            rep.observe("thread_order_signatures", &st.order_signature.to_string());
            // with a window, the retained archives + active must hold at least min(window) newest data:
            // nothing but whole oldest files may be gone => every file is full of frames, checked by parse
        }
    }
    // no foreign files (temp files left behind)
    for name in files.keys() {
        if name != ACTIVE && !kind.managed().iter().any(|(_, n)| n == name) {
            rep.violation("C05:foreign-file", json!({"run": desc, "what": format!("unexpected file {}", name)}));
        }
    }
    rep.case(&format!("{}|{}", desc, idx), true);
    if idx == 0 {
        rep.sample(json!({"kind": "concurrent run", "run": desc}));
    }
}

pub fn run(rep: &mut Report) {
    hooks::install();
    crate::c09::set_test_zone();
    rep.rule = "single-threaded histories of 5-65 operations (appends of self-describing records sized around the limit and the 1 KiB \
        buffer, empty records, restarts on the same path) over trigger kinds {size with limits 0..3000, on-start-up, real time \
        trigger on a driven clock, user-defined scripted triggers in pre- and post-processing mode} x rollers {delete, fixed window \
        base 0/1/7 count 0/1/2/3/5, plain/.gz/.zst} x open modes x encoders; after EVERY operation the whole directory is compared \
        with an exact model (which file holds which bytes) driven by the trigger decisions recorded at the Trigger boundary, and \
        the stream oracle is run at the end; concurrent runs (2-8 threads) are checked with the order-free stream oracle; \
        non-trivial = at least one rotation; distinct = distinct history".to_owned();
    rep.assume("trigger decisions are taken from a recording wrapper around the real trigger (their correctness is C06/C16/C17's business)");
    rep.assume("histories have at most a few hundred records; the time trigger runs on the driven clock only");
    let thorough = rep.tier == "thorough";
    run_cases(rep, "single", if thorough { 15_000 } else { 2_500 }, single_history);
    run_cases(rep, "overlap", if thorough { 2000 } else { 300 }, overlapping_restart);
    let saved = std::env::var("L4V_JOBS").ok();
    std::env::set_var("L4V_JOBS", "4");
    run_cases(rep, "concurrent", if thorough { 400 } else { 60 }, concurrent_run);
    match saved {
        Some(v) => std::env::set_var("L4V_JOBS", v),
        None => std::env::remove_var("L4V_JOBS"),
    }
    // the same stream oracle against log4rs built with its `background_rotation` feature (both tiers)
    crate::subrun::merge(rep, "L4V_BIN_BGROT", "C05BG", "background_rotation");
    if rep.tier == "thorough" && std::env::var("L4V_NO_MIRI").is_err() && std::env::var("L4V_SUBRUN").is_err() {
        crate::miri::run_miri_seeds(rep, "C05", 32);
        rep.require(rep.counter("miri_seeds_run") >= 32 / 2, "fewer than half of the Miri seeds produced a result");
    }
    rep.require(rep.counter("rotations_observed") > 500, "fewer than 500 rotations observed");
    rep.require(rep.set_size("trigger_kinds") >= 4, "not all trigger kinds were exercised");
    rep.require(rep.counter("adjacent_cross_thread_pairs") > 10, "concurrent runs did not interleave");
    let _ = Comp::None;
}

/// Tiny concurrent rolling run for Miri.
pub fn miri_scenario(rep: &mut Report, rng: &mut Rng) {
    let sc = Scratch::new("c05m");
    let kind = RollerKind::Window { base: 0, count: 2 + rng.below(2) as u32, comp: Comp::None, pattern_rel: "app.{}.log".into() };
    let mut e = Engine::new(sc.path.clone(), true, kind.clone(), TrigSpec::Size(*rng.pick(&[30u64, 60])), 2);
    if let Err((sig, what)) = e.open() {
        rep.violation(&format!("C05:{}", sig), json!({"what": what, "under": "miri"}));
        return;
    }
    let app: Arc<Box<dyn Append>> = Arc::new(e.app.take().unwrap());
    let acks: Arc<Mutex<Vec<Ack>>> = Arc::new(Mutex::new(vec![]));
    std::thread::scope(|s| {
        for t in 0..2u32 {
            let (app, acks) = (app.clone(), acks.clone());
            s.spawn(move || {
                let mut mine = vec![];
                for seq in 0..4u32 {
                    mine.push(append_frame(&**app, t + 1, seq, 8, true));
                    std::thread::yield_now();
                }
                acks.lock().unwrap().extend(mine);
            });
        }
    });
    drop(app);
    let acks = acks.lock().unwrap().clone();
    if acks.iter().any(|a| !a.ok) {
        rep.violation("C05:miri:append-failed", json!({}));
    }
    let files = dir_files(&sc.path);
    let res = read_stream(&files, &kind)
        .map_err(|e| ("archive-does-not-decode".to_owned(), e))
        .and_then(|b| parse_stream(&b).map_err(|e| ("S:stream-not-whole-frames".to_owned(), e)))
        .and_then(|p| check_stream(&p, &acks, &StreamOpts { allow_oldest_lost: true }));
    match res {
        Err((sig, what)) => rep.violation(&format!("C05:{}", sig), json!({"what": what, "under": "miri"})),
        Ok(st) => {
            rep.count("frames_checked", st.frames as i64);
            rep.observe("thread_order_signatures", &st.order_signature.to_string());
        }
    }
}

/// Runs in the harness binary built with log4rs' `background_rotation` feature: rotation happens on a
/// spawned thread, so the directory is only judged at quiescent points (no `<stem>.<digits>` temp file left).
pub fn run_background(rep: &mut Report) {
    hooks::install();
    let n = if rep.tier == "thorough" { 160 } else { 40 };
    let saved = std::env::var("L4V_JOBS").ok();
    std::env::set_var("L4V_JOBS", "4");
    run_cases(rep, "bg", n, |rep, rng, idx| {
        let sc = Scratch::new("c05bg");
        let threads = 1 + rng.usize_below(4);
        let per = 30 + rng.usize_below(90);
        // (limits 0 and 10: every append asks for a rotation, rotations follow one another at once)
        let limit = *rng.pick(&[0u64, 10, 60, 200, 1024]);
        let count = *rng.pick(&[1u32, 2, 3, 40]);
        let comp = if cfg!(feature = "full") && rng.chance(1, 3) { Comp::Gz } else { Comp::None };
        let kind = RollerKind::Window { base: 0, count, comp, pattern_rel: if comp == Comp::Gz { "arch/app.{}.log.gz".into() } else { "arch/app.{}.log".into() } };
        let desc = json!({"threads": threads, "records_per_thread": per, "size_limit": limit, "roller": kind.describe(), "background_rotation": true});
        let mut e = Engine::new(sc.path.clone(), true, kind.clone(), TrigSpec::Size(limit), 1);
        let app = match kind.build(&sc.path).map_err(|e| e.to_string()).and_then(|r| {
            build_appender(&sc.path, true, Box::new(ChunkEnc { pieces: 1 }), Box::new(SizeTrigger::new(limit)), r).map_err(|e| e.to_string())
        }) {
            Ok(a) => Arc::new(a),
            Err(err) => {
                rep.violation("C05:bg:build-failed", json!({"run": desc, "error": err}));
                return;
            }
        };
        e.with_newline = true;
        let acks: Arc<Mutex<Vec<Ack>>> = Arc::new(Mutex::new(vec![]));
        std::thread::scope(|s| {
            for t in 0..threads {
                let (app, acks) = (app.clone(), acks.clone());
                let seed = rng.next_u64();
                s.spawn(move || {
                    let mut r = Rng::new(seed);
                    let mut mine = vec![];
                    for seq in 0..per as u32 {
                        mine.push(append_frame(&*app, t as u32 + 1, seq, *r.pick(&[5usize, 20, 60, 200]), true));
                        if r.chance(1, 10) {
                            std::thread::sleep(std::time::Duration::from_micros(200));
                        }
                    }
                    acks.lock().unwrap().extend(mine);
                });
            }
        });
        drop(app);
        // quiescence: the roller renames the active file to <stem>.<digits> and a worker thread rotates it
        let mut quiet = false;
        for _ in 0..6000 {
            let files = dir_files(&sc.path);
            let temp = files.keys().any(|k| k.strip_prefix("app.").map(|r| !r.is_empty() && r.chars().all(|c| c.is_ascii_digit())).unwrap_or(false));
            if !temp {
                quiet = true;
                break;
            }
            std::thread::sleep(std::time::Duration::from_millis(10));
        }
        if !quiet {
            rep.inconclusive("background rotation did not become quiescent within 60 s (watchdog)");
            return;
        }
        std::thread::sleep(std::time::Duration::from_millis(20));
        let acks = acks.lock().unwrap().clone();
        if acks.iter().any(|a| !a.ok) {
            rep.violation("C05:bg:append-failed", json!({"run": desc}));
        }
        let files = dir_files(&sc.path);
        let res = read_stream(&files, &kind)
            .map_err(|e| ("archive-does-not-decode".to_owned(), e))
            .and_then(|b| parse_stream(&b).map_err(|e| ("S:stream-not-whole-frames".to_owned(), e)))
            .and_then(|p| check_stream(&p, &acks, &StreamOpts { allow_oldest_lost: true }));
        rep.case(&format!("{}|{}", desc, idx), true);
        rep.count("runs", 1);
        match res {
            Err((sig, what)) => rep.violation(&format!("C05:bg:{}", sig), json!({"run": desc, "what": what,
                "files": files.iter().map(|(k, v)| format!("{} ({} bytes)", k, v.len())).collect::<Vec<_>>()})),
            Ok(st) => rep.count("frames_checked", st.frames as i64),
        }
    });
    match saved {
        Some(v) => std::env::set_var("L4V_JOBS", v),
        None => std::env::remove_var("L4V_JOBS"),
    }
}
