//! C07 — fixed-window roller keeps the newest `count` files at base..base+count-1.

use crate::frames::decode_archive;
use crate::fsutil::{show_bytes, snapshot, Entry, Scratch, Snapshot};
use crate::par::run_cases;
use crate::report::Report;
use crate::rng::Rng;
use crate::trap;
use log4rs::append::rolling_file::policy::compound::roll::delete::DeleteRoller;
use log4rs::append::rolling_file::policy::compound::roll::fixed_window::FixedWindowRoller;
use log4rs::append::rolling_file::policy::compound::roll::Roll;
use serde_json::{json, Value};
use std::collections::BTreeMap;
use std::path::Path;

pub const ENV_NAME: &str = "L4V_C07_DIR";
pub const ENV_VALUE: &str = "envdir";

#[derive(Clone, Copy, Debug, PartialEq)]
pub enum Comp {
    None,
    Gz,
    Zst,
}

pub fn compress(c: Comp, data: &[u8]) -> Vec<u8> {
    match c {
        Comp::None => data.to_vec(),
        #[cfg(feature = "full")]
        Comp::Gz => {
            use std::io::Write;
            let mut e = flate2::write::GzEncoder::new(vec![], flate2::Compression::fast());
            e.write_all(data).unwrap();
            e.finish().unwrap()
        }
        #[cfg(feature = "full")]
        Comp::Zst => zstd::encode_all(data, 1).unwrap(),
        #[cfg(not(feature = "full"))]
        _ => data.to_vec(),
    }
}

/// Pattern kinds, relative to the scratch directory (which contains no "{}").
/// A value that itself contains "{}": the index goes into the *pattern's* placeholders only.
pub const ENV_BRACES_NAME: &str = "L4V_C07_BR";
pub const ENV_BRACES_VALUE: &str = "br{}ace";

/// A value with a path separator: the index lands in a directory component only after expansion.
pub const ENV_TAIL_NAME: &str = "L4V_C07_TAIL";
pub const ENV_TAIL_VALUE: &str = "d/app.log";

const PATTERNS: [&str; 12] = [
    "arch/{}.$ENV{L4V_C07_TAIL}",
    "$ENV{L4V_C07_DIR}/gen-{}/app.log",
    "app.{}.log",
    "arch/{}/app.log",
    "arch/{}/app.{}.log",
    "$ENV{L4V_C07_DIR}/app.{}.log",
    "deep/er/app-{}",
    "$ENV{L4V_C07_BR}/app.{}.log",
    "x-$ENV{L4V_C07_BR}-{}.log",
    // (round 9) the index in a directory component that is not the file's immediate parent
    "gen/{}/arch/app.log",
    "n{}/keep/deep/app.{}.log",
    "$ENV{L4V_C07_DIR}/{}/arch/er/app.log",
];

pub fn archive_rel(pattern_rel: &str, idx: u64) -> String {
    pattern_rel
        .replace("{}", &idx.to_string())
        .replace(&format!("$ENV{{{}}}", ENV_NAME), ENV_VALUE)
        .replace(&format!("$ENV{{{}}}", ENV_BRACES_NAME), ENV_BRACES_VALUE)
        .replace(&format!("$ENV{{{}}}", ENV_TAIL_NAME), ENV_TAIL_VALUE)
}

fn gen_content(rng: &mut Rng, tag: &str) -> Vec<u8> {
    let len = match rng.below(10) {
        0 => 0,
        1..=6 => 1 + rng.usize_below(200),
        7 | 8 => 1000 + rng.usize_below(4000),
        _ => 200 * 1024,
    };
    let mut v = format!("[{}]", tag).into_bytes();
    let mut x = rng.next_u64();
    while v.len() < len {
        v.push(b'a' + (crate::rng::splitmix(&mut x) % 26) as u8);
    }
    if len == 0 {
        v.clear();
    }
    v
}

struct Case {
    base: u32,
    count: u32,
    pattern_rel: String,
    comp: Comp,
    delete_roller: bool,
}

fn describe(c: &Case, initial: &BTreeMap<String, Vec<u8>>, rolls: usize) -> Value {
    json!({"roller": if c.delete_roller { "delete" } else { "fixed_window" }, "base": c.base, "count": c.count,
        "pattern": c.pattern_rel, "rolls": rolls,
        "initial_files": initial.iter().map(|(k, v)| format!("{} ({} bytes)", k, v.len())).collect::<Vec<_>>()})
}

fn one_case(rep: &mut Report, rng: &mut Rng, idx: u64) {
    let sc = Scratch::new("c07");
    let root = sc.path.clone();
    let comp = match rng.below(5) {
        0 if cfg!(feature = "full") => Comp::Gz,
        1 if cfg!(feature = "full") => Comp::Zst,
        _ => Comp::None,
    };
    let mut pattern_rel = (*rng.pick(&PATTERNS[..])).to_owned();
    match comp {
        Comp::Gz => pattern_rel.push_str(".gz"),
        Comp::Zst => pattern_rel.push_str(".zst"),
        Comp::None => {}
    }
    let c = Case {
        base: *rng.pick(&[0u32, 0, 1, 1, 3, 4_000_000_000]),
        count: *rng.pick(&[0u32, 1, 1, 2, 2, 3, 3, 4, 7]),
        pattern_rel,
        comp,
        delete_roller: rng.chance(1, 12),
    };
    let pattern_abs = format!("{}/{}", root.to_str().unwrap(), c.pattern_rel);
    // now and then the file to roll lives on another file system than the archives (rename fails with EXDEV)
    let other_mount = if rng.chance(1, 8) { crate::fsutil::scratch_on_another_mount("c07x") } else { None };
    let active = match &other_mount {
        Some(o) => {
            rep.count("cases_with_the_rolled_file_on_another_mount", 1);
            o.path.join("app.log")
        }
        None => root.join("app.log"),
    };

    // ---- initial state: archives in and around the window, bystanders
    let mut initial: BTreeMap<String, Vec<u8>> = BTreeMap::new(); // rel path -> raw bytes
    let mut w: BTreeMap<u64, Vec<u8>> = BTreeMap::new(); // index -> decoded content, inside the window only
    let b = c.base as u64;
    let cnt = c.count as u64;
    let state_kind = rng.below(4); // 0 empty, 1 full window, 2 gaps, 3 random + beyond window
    let lo = b.saturating_sub(1);
    for i in lo..=(b + cnt + 1) {
        let inside = i >= b && i < b + cnt;
        let put = match state_kind {
            0 => false,
            1 => inside,
            2 => inside && rng.chance(1, 2),
            _ => rng.chance(1, 2),
        };
        if put {
            let content = gen_content(rng, &format!("old{}", i));
            initial.insert(archive_rel(&c.pattern_rel, i), compress(c.comp, &content));
            if inside && !c.delete_roller {
                w.insert(i, content);
            }
        }
    }
    // look-alike and unrelated bystanders
    for name in ["app.1.log.bak", "app.01.log", "app..log", "app.log.0", "other.txt", "arch/readme", "envdir/keep.me", "app.-1.log", "deep/er/app-x"] {
        if rng.chance(1, 2) && !initial.contains_key(name) {
            initial.insert(name.to_owned(), gen_content(rng, name));
        }
    }
    // bystanders whose names are a managed name plus a suffix that scratch files like to use
    for i in [b, b + 1] {
        for suffix in [".tmp", ".part", "~", ".bak", ".1"] {
            let name = format!("{}{}", archive_rel(&c.pattern_rel, i), suffix);
            if rng.chance(1, 4) && !initial.contains_key(&name) {
                initial.insert(name.clone(), gen_content(rng, &name));
            }
        }
    }
    initial.remove("app.log");
    for (rel, bytes) in &initial {
        let p = root.join(rel);
        std::fs::create_dir_all(p.parent().unwrap()).unwrap();
        std::fs::write(&p, bytes).unwrap();
    }
    let rolls = rng.usize_below(if c.count >= 4 { 13 } else { 7 });
    let desc = describe(&c, &initial, rolls);

    let roller: Box<dyn Roll> = if c.delete_roller {
        Box::new(DeleteRoller::new())
    } else {
        match FixedWindowRoller::builder().base(c.base).build(&pattern_abs, c.count) {
            Ok(r) => Box::new(r),
            Err(e) => {
                rep.violation("C07:roller-build-failed", json!({"case": desc, "error": e.to_string()}));
                return;
            }
        }
    };
    let managed: Vec<String> = if c.delete_roller { vec![] } else { (b..b + cnt).map(|i| archive_rel(&c.pattern_rel, i)).collect() };
    let mut rolled: Vec<Vec<u8>> = vec![];
    let mut before: Snapshot = snapshot(&root).unwrap();
    // event monitor: sees files that are created and removed again inside one roll()
    let mut watch = crate::fswatch::Watch::new(&root);
    if watch.is_none() {
        rep.count("cases_without_event_monitor", 1);
    }
    for k in 0..rolls {
        // now and then somebody removes the archive directory between two rolls
        if k > 0 && rng.chance(1, 8) {
            if let Some((top, _)) = c.pattern_rel.split_once('/') {
                let top = archive_rel(top, 0);
                if !top.contains("app") && std::fs::remove_dir_all(root.join(&top)).is_ok() {
                    rep.count("external_removals_of_the_archive_directory", 1);
                    let prefix = format!("{}/", top);
                    let gone: Vec<u64> = w.keys().cloned().filter(|i| archive_rel(&c.pattern_rel, *i).starts_with(&prefix)).collect();
                    for i in gone {
                        w.remove(&i);
                    }
                    // the recency statement only speaks about what was rolled since
                    rolled.clear();
                    before = snapshot(&root).unwrap();
                }
            }
        }
        // now and then the file to roll is not there (removed behind the appender's back): whatever roll()
        // answers, it must not panic and must not invent an archive
        if k > 0 && rng.chance(1, 10) {
            let _ = std::fs::remove_file(&active);
            let known: Vec<Vec<u8>> = w.values().cloned().collect();
            let r = trap::catch(|| roller.roll(Path::new(&active)));
            if let Err(p) = r {
                rep.violation(&format!("C07:panic:roll-of-a-missing-file:{}", p.site()), json!({"case": desc, "roll": k, "panic": p.message}));
                return;
            }
            rep.count("rolls_of_a_missing_file", 1);
            let after = snapshot(&root).unwrap();
            let mut pool = known.clone();
            let mut neww: BTreeMap<u64, Vec<u8>> = BTreeMap::new();
            for (j, name) in managed.iter().enumerate() {
                if let Some(Entry::File { bytes, .. }) = after.get(name) {
                    match decode_archive(name, bytes) {
                        Ok(got) => {
                            if let Some(pos) = pool.iter().position(|c| *c == got) {
                                pool.remove(pos);
                                neww.insert(b + j as u64, got);
                            } else {
                                rep.violation("C07:archive-invented-by-a-failed-roll", json!({"case": desc, "roll": k,
                                    "what": format!("after roll() of a missing file, {} holds {} bytes that were never rolled (or a second copy)", name, got.len())}));
                                return;
                            }
                        }
                        Err(e) => {
                            rep.violation("C07:archive-invented-by-a-failed-roll", json!({"case": desc, "roll": k,
                                "what": format!("after roll() of a missing file, {} does not decode: {}", name, e)}));
                            return;
                        }
                    }
                }
            }
            // nothing was rolled: a window of one slot has nothing to shift either, its archive stays
            if cnt == 1 && neww.len() < known.len() {
                rep.violation("C07:archive-removed-by-a-failed-roll", json!({"case": desc, "roll": k,
                    "what": "roll() of a missing file removed the only archive of a one-slot window"}));
                return;
            }
            w = neww;
            rolled.clear();
            before = after;
            if let Some(wt) = watch.as_mut() {
                let _ = wt.drain();
            }
            continue;
        }
        let content = gen_content(rng, &format!("roll{}", k));
        std::fs::write(&active, &content).unwrap();
        if let Some(w) = watch.as_mut() {
            let _ = w.drain(); // what the harness itself did
        }
        let r = trap::catch(|| roller.roll(Path::new(&active)));
        let events = watch.as_mut().map(|w| w.drain());
        match r {
            Err(p) => {
                rep.violation(&format!("C07:panic:{}", p.site()), json!({"case": desc, "roll": k, "panic": p.message}));
                return;
            }
            Ok(Err(e)) => {
                rep.violation("C07:roll-returned-error", json!({"case": desc, "roll": k, "error": e.to_string()}));
                return;
            }
            Ok(Ok(())) => {}
        }
        rep.count("rolls_observed", 1);
        // ---- W model step
        if !c.delete_roller && cnt > 0 {
            for i in (b..b + cnt - 1).rev() {
                if let Some(x) = w.remove(&i) {
                    w.insert(i + 1, x);
                }
            }
            w.insert(b, content.clone());
        }
        rolled.push(content);
        let after = match snapshot(&root) {
            Ok(s) => s,
            Err(e) => {
                rep.inconclusive(&format!("cannot snapshot scratch directory: {}", e));
                return;
            }
        };
        let fail = |rep: &mut Report, sig: &str, what: String| {
            rep.violation(sig, json!({"case": desc, "after_roll": k + 1, "what": what,
                "directory": after.iter().filter_map(|(p, e)| match e { Entry::File { bytes, .. } => Some(format!("{} ({} bytes)", p, bytes.len())), _ => None }).collect::<Vec<_>>()}));
        };
        // every filesystem event of this roll() concerns the rolled file, a managed name or a directory leading to one
        if let Some(evs) = &events {
            if watch.as_ref().map(|w| w.overflowed).unwrap_or(false) {
                rep.count("rolls_with_event_queue_overflow", 1);
                watch = None;
            } else {
                rep.count("filesystem_events_checked", evs.len() as i64);
                rep.count("rolls_under_the_event_monitor", 1);
                for e in evs {
                    let leads_to_managed = managed.iter().any(|m| m.starts_with(&format!("{}/", e.path)));
                    let ok = e.path == "app.log" || managed.contains(&e.path) || (e.is_dir && leads_to_managed);
                    rep.observe("event_kinds", e.kind());
                    if !ok && !before.contains_key(&e.path) {
                        // a name that did not exist before this call: if it is still there afterwards the snapshot
                        // comparison below reports it; a scratch file that is gone again is not "after the rolls" state
                        rep.count("events_on_transient_names_outside_the_managed_set", 1);
                        continue;
                    }
                    if !ok {
                        fail(rep, "C07:foreign-path-touched-during-roll", format!("{} {} while roll() ran (events of this call: {:?})", e.path, e.kind(),
                            evs.iter().map(|x| format!("{} {}", x.kind(), x.path)).take(30).collect::<Vec<_>>()));
                        return;
                    }
                }
            }
        }
        if after.contains_key("app.log") || active.exists() {
            fail(rep, "C07:rolled-file-still-present", "the rolled file still exists at its original path".into());
            return;
        }
        // managed names hold exactly the window model
        for (j, name) in managed.iter().enumerate() {
            let i = b + j as u64;
            match (w.get(&i), after.get(name)) {
                (None, None) => {}
                (Some(_), None) => {
                    fail(rep, "C07:archive-missing", format!("archive index {} ({}) is missing", i, name));
                    return;
                }
                (None, Some(_)) => {
                    fail(rep, "C07:unexpected-archive", format!("archive index {} ({}) exists but the window model has none", i, name));
                    return;
                }
                (Some(want), Some(Entry::File { bytes, .. })) => match decode_archive(name, bytes) {
                    Err(e) => {
                        fail(rep, "C07:archive-does-not-decode", format!("index {} ({}): {}", i, name, e));
                        return;
                    }
                    Ok(got) => {
                        if &got != want {
                            fail(rep, "C07:archive-content", format!("index {} ({}) holds {:?}.. ({} bytes), expected {:?}.. ({} bytes)",
                                i, name, show_bytes(&got[..got.len().min(24)]), got.len(), show_bytes(&want[..want.len().min(24)]), want.len()));
                            return;
                        }
                        rep.count("archives_compared", 1);
                    }
                },
                (Some(_), Some(Entry::Dir)) => {
                    fail(rep, "C07:archive-is-a-directory", name.clone());
                    return;
                }
            }
        }
        // the stronger statement for what was rolled during this history
        for j in 0..(rolled.len() as u64).min(cnt) {
            if c.delete_roller {
                break;
            }
            let want = &rolled[rolled.len() - 1 - j as usize];
            if w.get(&(b + j)) != Some(want) {
                fail(rep, "C07:harness-model-inconsistent", "internal: window model disagrees with the recency rule".into());
                return;
            }
        }
        // nothing outside the managed names is created, modified or removed
        for (p, e) in &before {
            if p == "app.log" || managed.contains(p) {
                continue;
            }
            match (e, after.get(p)) {
                (_, None) => {
                    fail(rep, "C07:bystander-removed", format!("{} disappeared", p));
                    return;
                }
                (Entry::File { .. }, Some(a)) if a != e => {
                    fail(rep, "C07:bystander-modified", format!("{} changed (bytes, inode or mtime)", p));
                    return;
                }
                _ => {}
            }
        }
        for (p, e) in &after {
            if before.contains_key(p) || managed.contains(p) {
                continue;
            }
            match e {
                Entry::Dir => {
                    // only parents of managed names may appear
                    let ok = managed.iter().any(|m| m.starts_with(&format!("{}/", p)));
                    if !ok {
                        fail(rep, "C07:foreign-directory-created", p.clone());
                        return;
                    }
                }
                Entry::File { .. } => {
                    fail(rep, "C07:foreign-file-created", p.clone());
                    return;
                }
            }
        }
        rep.count("bystanders_compared", before.len() as i64);
        before = after;
    }
    rep.case(&desc.to_string(), rolls > 0);
    if idx < 3 {
        rep.sample(desc);
    }
}

/// Patterns relative to the working directory, as people write them in configuration files: no directory
/// part at all, a "./" prefix, a relative sub-directory. (Sequential: the working directory is process-wide.)
fn relative_pattern_cases(rep: &mut Report) {
    if rep.only.is_some() {
        return;
    }
    let old = std::env::current_dir().ok();
    for (k, pattern) in ["app.{}.log", "./app.{}.log", "logs/app.{}.log", "app.log.{}", "{}"].iter().enumerate() {
        for count in [1u32, 2, 3] {
            let sc = Scratch::new("c07rel");
            if std::env::set_current_dir(&sc.path).is_err() {
                rep.inconclusive("cannot change the working directory");
                return;
            }
            let roller = match FixedWindowRoller::builder().build(pattern, count) {
                Ok(r) => r,
                Err(e) => {
                    rep.violation("C07:roller-build-failed", json!({"pattern": pattern, "error": e.to_string()}));
                    continue;
                }
            };
            let mut rolled: Vec<String> = vec![];
            for r in 0..(count + 2) {
                let content = format!("relative case {} roll {}", k, r);
                std::fs::write("current.log", &content).unwrap();
                rep.case_enumerated(true);
                let res = trap::catch(|| roller.roll(Path::new("current.log")).map_err(|e| e.to_string()));
                rolled.insert(0, content);
                rolled.truncate(count as usize);
                rep.count("rolls_observed", 1);
                rep.count("rolls_with_patterns_relative_to_the_working_directory", 1);
                let got: Vec<Option<String>> = (0..count).map(|i| std::fs::read_to_string(pattern.replace("{}", &i.to_string())).ok()).collect();
                let want: Vec<Option<String>> = (0..count as usize).map(|i| rolled.get(i).cloned()).collect();
                if !matches!(res, Ok(Ok(()))) || got != want || Path::new("current.log").exists() {
                    rep.violation("C07:archive-content:relative-pattern", json!({"pattern": pattern, "count": count, "after_roll": r + 1,
                        "expected_archives": want, "got_archives": got, "result": format!("{:?}", res.map_err(|p| p.message))}));
                    break;
                }
            }
            if let Some(o) = &old {
                let _ = std::env::set_current_dir(o);
            }
        }
    }
    if let Some(o) = old {
        let _ = std::env::set_current_dir(o);
    }
}

pub fn run(rep: &mut Report) {
    std::env::set_var(ENV_NAME, ENV_VALUE);
    std::env::set_var(ENV_BRACES_NAME, ENV_BRACES_VALUE);
    std::env::set_var(ENV_TAIL_NAME, ENV_TAIL_VALUE);
    rep.rule = "Roll::roll called directly on FixedWindowRoller / DeleteRoller: base in {0,1,3,4e9}, count in {0,1,2,3,4,7}, patterns with the \
        index in the file name / in a directory component / repeated / behind $ENV{..} / .gz / .zst, 0-12 successive rolls of \
        empty, small, multi-KiB and 200 KiB contents, initial states empty / full window / gaps / archives beyond the window / \
        look-alike and unrelated bystanders; after every roll a recursive snapshot (bytes, inode, mtime) is compared with the \
        window model (decompressing strictly, trailing garbage rejected); non-trivial = at least one roll; distinct = distinct case".to_owned();
    rep.assume("excluded as ill-defined: base+count > u32::MAX, an active path that is itself a managed name");
    rep.assume("inotify events (create, delete, modify, rename, attribute change) on every directory below the scratch root are read after each roll(): an event on a file that existed before the call and is not a managed name is a violation even if a later snapshot shows it unchanged (same bytes, inode and mtime restored); events on names that did not exist before the call and are gone after it (scratch files of the roller) are counted, not judged - the property speaks about the state after the rolls");
    if !cfg!(feature = "full") {
        rep.assume("this harness build has no gzip/zstd support: compressed patterns are not exercised");
    }
    let n = if rep.tier == "thorough" { 30_000 } else { 4_000 };
    run_cases(rep, "roll", n, one_case);
    relative_pattern_cases(rep);
    rep.require(rep.counter("rolls_observed") > 1000, "fewer than 1000 rolls observed");
    rep.require(rep.counter("archives_compared") > 1000, "fewer than 1000 archives compared");
    rep.require(rep.counter("rolls_under_the_event_monitor") > 1000, "fewer than 1000 rolls ran under the filesystem-event monitor");
}
