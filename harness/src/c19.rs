//! C19 — $ENV{NAME} path expansion substitutes set variables, leaves all else intact.

use crate::fsutil::Scratch;
use crate::par::run_cases;
use crate::report::Report;
use crate::rng::Rng;
use crate::rolling::dir_files;
use crate::trap;
use log4rs::append::file::FileAppender;
use log4rs::append::rolling_file::policy::compound::roll::fixed_window::FixedWindowRoller;
use log4rs::append::rolling_file::policy::compound::roll::Roll;
use log4rs::append::rolling_file::policy::compound::trigger::size::SizeTrigger;
use log4rs::append::rolling_file::policy::compound::CompoundPolicy;
use log4rs::append::rolling_file::RollingFileAppender;
use log4rs::append::rolling_file::policy::compound::roll::delete::DeleteRoller;
use serde_json::json;

/// (name, value) — values are '$'-free as the property requires.
const VARS: [(&str, &str); 13] = [
    ("L4V_G", "g{}h"),
    ("L4V_A", "plain"),
    ("L4V_B", ""),
    ("L4V_C", "with{braces}"),
    ("L4V_D", "ENV"),
    ("L4V_E", "ENV{L4V_A}"),
    ("L4V_F", "é-ü"),
    ("L4V.dot_1", "dotted"),
    ("_L4V", "underscore"),
    ("L4Vé", "nonascii-name"),
    ("L4V_DÏR", "umlaut-inside"),
    ("Éa", "nonascii-first"),
    ("日本_1", "cjk-name"),
];
const UNSET: [&str; 3] = ["L4V_UNSET", "L4V_NOPE.x", "é_unset"];

pub fn setup_env() {
    for (k, v) in VARS {
        std::env::set_var(k, v);
    }
    for k in UNSET {
        std::env::remove_var(k);
    }
    std::env::set_var("L4V_DIR", "sub/dir");
}

fn is_start(c: char) -> bool {
    c.is_alphanumeric() || c == '_'
}
fn is_part(c: char) -> bool {
    c.is_alphanumeric() || c == '_' || c == '.'
}

/// Reference expansion: one left-to-right pass over the input.
pub fn model(input: &str) -> String {
    let mut out = String::new();
    let mut i = 0;
    let b = input;
    while i < b.len() {
        if b[i..].starts_with("$ENV{") {
            let rest = &b[i + 5..];
            let mut name = String::new();
            let mut end = None;
            for (k, c) in rest.char_indices() {
                if k == 0 {
                    if !is_start(c) {
                        break;
                    }
                    name.push(c);
                } else if is_part(c) {
                    name.push(c);
                } else if c == '}' {
                    end = Some(i + 5 + k + 1);
                    break;
                } else {
                    break;
                }
            }
            if let Some(e) = end {
                if let Ok(v) = std::env::var(&name) {
                    out.push_str(&v);
                    i = e;
                    continue;
                }
            }
        }
        let c = b[i..].chars().next().unwrap();
        out.push(c);
        i += c.len_utf8();
    }
    out
}

const PIECES: [&str; 44] = [
    "$ENV{L4V_G}", "$ENV{L4V_G}$ENV{L4V_B}",
    "$ENV{é", "$ENV{L4V_A\u{301}}", "$ENV{𝄞}", "💥", "$ENV{L4V_A}}", "{$ENV{L4V_A}", "$ENV{L4V_A}$ENV{L4V_F}", "$ENV{L4V_Aé}",
    "log", "é", "a b", "x", "_", ".", "-", "$", "$$", "{", "}", "$ENV", "$ENV{", "ENV{", "$env{L4V_A}", "$ENV {L4V_A}",
    "$ENV{L4V_A}", "$ENV{L4V_B}", "$ENV{L4V_C}", "$ENV{L4V_D}", "$ENV{L4V_E}", "$ENV{L4V_F}", "$ENV{L4V.dot_1}", "$ENV{_L4V}",
    "$ENV{L4Vé}", "$ENV{L4V_UNSET}", "$ENV{L4V_NOPE.x}", "$ENV{é_unset}", "$ENV{}", "$ENV{-L4V_A}", "$ENV{.L4V_A}",
    "$ENV{L4V-A}", "$ENV{L4V_A", "{L4V_A}",
];

fn gen_string(rng: &mut Rng) -> String {
    if rng.chance(1, 8) {
        // (family "created reference", recognisable by the leading "$$ENV{L4V_D}" / "$$ENV{L4V_E}" idiom)
        // text created by one substitution looks like a reference that also occurs later
        let name = *rng.pick(&["L4V_A", "L4V_F", "_L4V", "L4V_B"]);
        let sep = *rng.pick(&["_", "", ".", "x"]);
        return match rng.below(3) {
            0 => format!("$$ENV{{L4V_D}}{{{}}}{}$ENV{{{}}}", name, sep, name),
            1 => format!("$ENV{{{}}}{}$$ENV{{L4V_D}}{{{}}}", name, sep, name),
            _ => format!("$$ENV{{L4V_E}}{}$ENV{{L4V_A}}", sep),
        };
    }
    if rng.chance(1, 6) {
        // unstructured: characters of the syntax and of variable names in any order
        let pool: Vec<char> = "$ENV{}L4V_AFBé.-_ 𝄞x".chars().collect();
        return (0..1 + rng.usize_below(30)).map(|_| *rng.pick(&pool)).collect();
    }
    let n = 1 + rng.usize_below(6);
    let mut s = String::new();
    for _ in 0..n {
        s.push_str(*rng.pick(&PIECES[..]));
    }
    s
}

fn one_file_name(dir: &std::path::Path) -> Result<Option<String>, String> {
    let files = dir_files(dir);
    match files.len() {
        0 => Ok(None),
        1 => Ok(Some(files.keys().next().unwrap().clone())),
        n => Err(format!("{} files were created: {:?}", n, files.keys().collect::<Vec<_>>())),
    }
}

fn one_case(rep: &mut Report, rng: &mut Rng, idx: u64) {
    let s = gen_string(rng);
    if s.len() > 180 {
        return;
    }
    let want = model(&s);
    let nontrivial = s.contains("$ENV{");
    let site = idx % 3;
    rep.case(&format!("{}|{}", s, site), nontrivial);
    if want != s {
        rep.count("strings_with_at_least_one_substitution", 1);
    }
    let sc = Scratch::new("c19");
    let wrong = if s.contains("$$ENV{L4V_D}") || s.contains("$$ENV{L4V_E}") {
        "C19:wrong-location:text-created-by-a-substitution-expanded-again"
    } else {
        "C19:wrong-location"
    };
    let site_name = ["FileAppender::build", "RollingFileAppender::build", "FixedWindowRoller::roll"][site as usize];
    let d = |got: &str| json!({"input": s, "call_site": site_name,
        "expected_name": want, "created": got});
    match site {
        0 | 1 => {
            let raw = format!("{}/f_{}.log", sc.path.to_str().unwrap(), s);
            let r = trap::catch(|| -> Result<(), String> {
                if site == 0 {
                    FileAppender::builder().build(&raw).map(|_| ()).map_err(|e| e.to_string())
                } else {
                    RollingFileAppender::builder()
                        .build(&raw, Box::new(CompoundPolicy::new(Box::new(SizeTrigger::new(1 << 30)), Box::new(DeleteRoller::new()))))
                        .map(|_| ())
                        .map_err(|e| e.to_string())
                }
            });
            match r {
                Err(p) => rep.violation(&format!("C19:panic:{}", p.site()), json!({"case": d(""), "panic": p.message})),
                Ok(Err(e)) => rep.violation("C19:build-failed", json!({"case": d(""), "error": e})),
                Ok(Ok(())) => match one_file_name(&sc.path) {
                    Err(e) => rep.violation("C19:wrong-location", json!({"case": d(&e)})),
                    Ok(got) => {
                        let want_name = format!("f_{}.log", want);
                        rep.count("locations_compared", 1);
                        if got.as_deref() != Some(&want_name) {
                            rep.violation(wrong, json!({"case": d(got.as_deref().unwrap_or("<nothing>")), "expected_file": want_name}));
                        }
                    }
                },
            }
        }
        _ => {
            if s.contains("{}") {
                return; // a literal "{}" in the input is an index placeholder of the pattern itself
            }
            // (a "{}" inside a variable's VALUE is not part of the pattern: the index must not go there)
            let pattern = format!("{}/arch/a_{}_.{{}}", sc.path.to_str().unwrap(), s);
            let active = sc.join("active.log");
            let count = 2 + (idx / 3 % 2) as u32;
            let rolls = count as usize + 1;
            let r = trap::catch(|| -> Result<(), String> {
                let roller = FixedWindowRoller::builder().build(&pattern, count).map_err(|e| e.to_string())?;
                for k in 0..rolls {
                    std::fs::write(&active, format!("content{}", k)).map_err(|e| e.to_string())?;
                    roller.roll(&active).map_err(|e| e.to_string())?;
                }
                Ok(())
            });
            match r {
                Err(p) => rep.violation(&format!("C19:panic:{}", p.site()), json!({"case": d(""), "panic": p.message})),
                Ok(Err(e)) => rep.violation("C19:roll-failed", json!({"case": d(""), "error": e})),
                Ok(Ok(())) => {
                    // after count+1 rolls every slot of the window is filled, at the expanded location
                    let got: Vec<(String, Vec<u8>)> = dir_files(&sc.path).into_iter().collect();
                    let mut want_files: Vec<(String, Vec<u8>)> = (0..count as usize)
                        .map(|j| (format!("arch/a_{}_.{}", want, j), format!("content{}", rolls - 1 - j).into_bytes()))
                        .collect();
                    want_files.sort();
                    rep.count("locations_compared", count as i64);
                    if got != want_files {
                        rep.violation(wrong, json!({"case": d(&format!("{:?}", got.iter().map(|(n, _)| n).collect::<Vec<_>>())),
                            "expected_files": want_files.iter().map(|(n, _)| n.clone()).collect::<Vec<_>>(), "rolls": rolls, "count": count}));
                    }
                }
            }
        }
    }
    if idx < 4 {
        rep.sample(json!({"input": s, "expected": want}));
    }
}

/// References at byte 0 of a relative path (the process works in a scratch directory meanwhile).
fn leading_reference_cases(rep: &mut Report) {
    let sc = Scratch::new("c19cwd");
    let old = std::env::current_dir().ok();
    if std::env::set_current_dir(&sc.path).is_err() {
        rep.inconclusive("cannot change the working directory");
        return;
    }
    std::env::set_var("L4V_ABS", sc.path.join("absdir").to_str().unwrap());
    let cases: Vec<(String, String)> = vec![
        ("$ENV{L4V_B}lead-empty.log".into(), "lead-empty.log".into()),
        ("$ENV{L4V_B}$ENV{L4V_B}two-empties.log".into(), "two-empties.log".into()),
        ("$ENV{L4V_B}x$ENV{L4V_UNSET}.log".into(), "x$ENV{L4V_UNSET}.log".into()),
        ("$ENV{L4V_A}-lead.log".into(), "plain-lead.log".into()),
        ("$ENV{L4V_B}$ENV{L4V_A}.log".into(), "plain.log".into()),
        ("$ENV{L4V_ABS}/abs.log".into(), "absdir/abs.log".into()),
        ("$ENV{L4V_UNSET}lead.log".into(), "$ENV{L4V_UNSET}lead.log".into()),
    ];
    for (i, (raw, want)) in cases.iter().enumerate() {
        for site in 0..3 {
            let sub = format!("case{}_{}", i, site);
            let _ = std::fs::create_dir_all(sc.path.join(&sub));
            let _ = std::env::set_current_dir(sc.path.join(&sub));
            rep.case_enumerated(true);
            let r = trap::catch(|| -> Result<(), String> {
                match site {
                    0 => FileAppender::builder().build(raw).map(|_| ()).map_err(|e| e.to_string()),
                    1 => RollingFileAppender::builder()
                        .build(raw, Box::new(CompoundPolicy::new(Box::new(SizeTrigger::new(1 << 30)), Box::new(DeleteRoller::new()))))
                        .map(|_| ())
                        .map_err(|e| e.to_string()),
                    _ => {
                        std::fs::write("active.tmp", b"x").map_err(|e| e.to_string())?;
                        let roller = FixedWindowRoller::builder().build(&format!("{}.{{}}", raw), 2).map_err(|e| e.to_string())?;
                        roller.roll(std::path::Path::new("active.tmp")).map_err(|e| e.to_string())
                    }
                }
            });
            let base = if want.starts_with("absdir/") { sc.path.clone() } else { sc.path.join(&sub) };
            let want_rel = if site == 2 { format!("{}.0", want) } else { want.clone() };
            let got: Vec<String> = dir_files(&base).keys().filter(|k| !k.starts_with("case")).cloned().collect();
            rep.count("locations_compared", 1);
            rep.count("leading_reference_cases", 1);
            let ok = matches!(r, Ok(Ok(()))) && got.iter().any(|g| *g == want_rel);
            if !ok {
                rep.violation("C19:wrong-location:reference-at-the-start-of-the-path", json!({"input": raw, "call_site": site,
                    "expected_file": want_rel, "created": got, "result": format!("{:?}", r.map_err(|p| p.message))}));
            }
            if want.starts_with("absdir/") {
                let _ = std::fs::remove_dir_all(sc.path.join("absdir"));
            }
        }
    }
    if let Some(o) = old {
        let _ = std::env::set_current_dir(o);
    }
}

/// The value of a variable changes while the process runs (and the variable disappears and comes
/// back): whatever is built afterwards goes where the variable points *now*.
fn changing_value_cases(rep: &mut Report) {
    const NAME: &str = "L4V_CHG";
    let steps: [Option<&str>; 6] = [Some("one"), Some("two"), None, Some("three"), Some(""), Some("one")];
    for site in 0..3 {
        let sc = Scratch::new("c19chg");
        for (k, v) in steps.iter().enumerate() {
            match v {
                Some(v) => std::env::set_var(NAME, v),
                None => std::env::remove_var(NAME),
            }
            let raw_rel = format!("$ENV{{{}}}/f{}.log", NAME, k);
            let raw = format!("{}/{}", sc.path.to_str().unwrap(), raw_rel);
            let want_rel = match v {
                Some(v) if v.is_empty() => format!("f{}.log", k),
                Some(v) => format!("{}/f{}.log", v, k),
                None => raw_rel.clone(),
            };
            rep.case_enumerated(true);
            let r = trap::catch(|| -> Result<(), String> {
                match site {
                    0 => FileAppender::builder().build(&raw).map(|_| ()).map_err(|e| e.to_string()),
                    1 => RollingFileAppender::builder()
                        .build(&raw, Box::new(CompoundPolicy::new(Box::new(SizeTrigger::new(1 << 30)), Box::new(DeleteRoller::new()))))
                        .map(|_| ())
                        .map_err(|e| e.to_string()),
                    _ => {
                        let active = sc.path.join("active.tmp");
                        std::fs::write(&active, b"x").map_err(|e| e.to_string())?;
                        let roller = FixedWindowRoller::builder().build(&format!("{}.{{}}", raw), 2).map_err(|e| e.to_string())?;
                        roller.roll(&active).map_err(|e| e.to_string())
                    }
                }
            });
            let want_file = if site == 2 { format!("{}.0", want_rel) } else { want_rel.clone() };
            let got: Vec<String> = dir_files(&sc.path).keys().cloned().collect();
            rep.count("locations_compared", 1);
            rep.count("builds_after_a_change_of_the_variable", 1);
            if !matches!(r, Ok(Ok(()))) || !got.iter().any(|g| *g == want_file) {
                rep.violation("C19:wrong-location:value-changed-since-an-earlier-expansion", json!({"input": raw_rel, "call_site": site,
                    "history_of_the_variable": steps[..=k].iter().map(|s| s.map(|x| format!("{:?}", x)).unwrap_or("unset".into())).collect::<Vec<_>>(),
                    "expected_file": want_file, "files_present": got, "result": format!("{:?}", r.map_err(|p| p.message))}));
                break;
            }
        }
    }
    // one long-lived rolling appender: its log file is where the variable pointed when it was built, and stays there
    {
        let sc = Scratch::new("c19app");
        std::env::set_var(NAME, "one");
        let raw = format!("{}/$ENV{{{}}}/app.log", sc.path.to_str().unwrap(), NAME);
        let roller = FixedWindowRoller::builder().build(&format!("{}/arch.{{}}.log", sc.path.to_str().unwrap()), 2);
        let app = roller.ok().and_then(|r| RollingFileAppender::builder()
            .encoder(Box::new(log4rs::encode::pattern::PatternEncoder::new("{m}{n}")))
            .build(&raw, Box::new(CompoundPolicy::new(Box::new(SizeTrigger::new(40)), Box::new(r)))).ok());
        if let Some(app) = app {
            use log4rs::append::Append;
            let mut ok = true;
            for (k, v) in ["one", "two", "two", "", "three"].iter().enumerate() {
                std::env::set_var(NAME, v);
                let r = trap::catch(|| app.append(&log::Record::builder().level(log::Level::Info).args(format_args!("record number {} of the long-lived appender", k)).build()));
                ok &= matches!(r, Ok(Ok(())));
            }
            drop(app);
            let files: Vec<String> = dir_files(&sc.path).keys().cloned().collect();
            rep.case_enumerated(true);
            rep.count("locations_compared", 1);
            let stray: Vec<&String> = files.iter().filter(|f| !(f.starts_with("one/") || f.starts_with("arch."))).collect();
            if !ok || !stray.is_empty() || !files.iter().any(|f| f == "arch.1.log") {
                rep.violation("C19:wrong-location:value-changed-while-the-appender-lives", json!({"input": format!("$ENV{{{}}}/app.log", NAME),
                    "history_of_the_variable": ["one (build)", "one", "two", "two", "", "three"], "every_append_ok": ok, "files_present": files}));
            }
        }
        std::env::remove_var(NAME);
    }
    // one long-lived roller whose pattern refers to the variable: every roll goes where the variable points at
    // the time of the roll (unset: the reference stays as it is)
    let sc = Scratch::new("c19roller");
    std::env::remove_var(NAME);
    let pattern = format!("{}/$ENV{{{}}}/arch.{{}}", sc.path.to_str().unwrap(), NAME);
    if let Ok(roller) = FixedWindowRoller::builder().build(&pattern, 1) {
        let history: [Option<&str>; 7] = [None, Some("one"), None, Some("two"), Some("two"), Some(""), Some("one")];
        for (k, v) in history.iter().enumerate() {
            match v {
                Some(v) => std::env::set_var(NAME, v),
                None => std::env::remove_var(NAME),
            }
            let active = sc.path.join("active.tmp");
            let content = format!("roll {}", k);
            let _ = std::fs::write(&active, &content);
            rep.case_enumerated(true);
            let r = trap::catch(|| roller.roll(&active).map_err(|e| e.to_string()));
            let want_rel = match v {
                Some(v) if v.is_empty() => "arch.0".to_owned(),
                Some(v) => format!("{}/arch.0", v),
                None => format!("$ENV{{{}}}/arch.0", NAME),
            };
            let got = std::fs::read_to_string(sc.path.join(&want_rel)).ok();
            rep.count("locations_compared", 1);
            rep.count("rolls_of_a_long_lived_roller_after_a_change_of_the_variable", 1);
            if !matches!(r, Ok(Ok(()))) || got.as_deref() != Some(content.as_str()) {
                rep.violation("C19:wrong-location:value-changed-since-an-earlier-expansion", json!({"input": format!("$ENV{{{}}}/arch.{{}}", NAME), "call_site": "long-lived roller",
                    "history_of_the_variable": history[..=k].iter().map(|s| s.map(|x| format!("{:?}", x)).unwrap_or("unset".into())).collect::<Vec<_>>(),
                    "expected_file": want_rel, "files_present": dir_files(&sc.path).keys().cloned().collect::<Vec<_>>(), "result": format!("{:?}", r.map_err(|p| p.message))}));
                break;
            }
        }
    }
    std::env::remove_var(NAME);
}

/// A variable whose value is not valid Unicode cannot be spliced into a `String` path: the reference
/// either stays as it is (treated like an unset variable) or is replaced by the value's text in some
/// lossy rendering - but not by something else (an empty string, say).
fn non_unicode_value_case(rep: &mut Report) {
    use std::os::unix::ffi::OsStringExt;
    let bad = std::ffi::OsString::from_vec(vec![b'v', 0xff, 0xfe, b'w']);
    std::env::set_var("L4V_BADUTF", &bad);
    for site in 0..2 {
        let sc = Scratch::new("c19bad");
        let raw = format!("{}/a-$ENV{{L4V_BADUTF}}-z.log", sc.path.to_str().unwrap());
        rep.case_enumerated(true);
        let r = trap::catch(|| -> Result<(), String> {
            match site {
                0 => FileAppender::builder().build(&raw).map(|_| ()).map_err(|e| e.to_string()),
                _ => RollingFileAppender::builder()
                    .build(&raw, Box::new(CompoundPolicy::new(Box::new(SizeTrigger::new(1 << 30)), Box::new(DeleteRoller::new()))))
                    .map(|_| ())
                    .map_err(|e| e.to_string()),
            }
        });
        let names: Vec<Vec<u8>> = std::fs::read_dir(&sc.path).map(|rd| rd.flatten().map(|e| {
            use std::os::unix::ffi::OsStrExt;
            e.file_name().as_bytes().to_vec()
        }).collect()).unwrap_or_default();
        rep.count("locations_compared", 1);
        let ok = match &r {
            Err(_) => false,
            Ok(Err(_)) => names.is_empty(), // refusing the path is acceptable, creating a wrong file is not
            Ok(Ok(())) => names.len() == 1 && (names[0] == b"a-$ENV{L4V_BADUTF}-z.log".to_vec()
                || (names[0].starts_with(b"a-v") && names[0].ends_with(b"w-z.log"))),
        };
        if !ok {
            rep.violation("C19:wrong-location:value-that-is-not-unicode", json!({"input": "a-$ENV{L4V_BADUTF}-z.log", "call_site": site,
                "value_bytes": "76 ff fe 77", "created": names.iter().map(|n| String::from_utf8_lossy(n).into_owned()).collect::<Vec<_>>(),
                "result": format!("{:?}", r.map_err(|p| p.message))}));
        }
    }
    std::env::remove_var("L4V_BADUTF");
}

fn directory_cases(rep: &mut Report) {
    // a value containing path separators: the file lands in the expanded directory. Expansion is textual:
    // a value that starts with '/' in the middle of a path does not make the path start over.
    std::env::set_var("L4V_ABSV", "/abs/inner");
    for (k, raw_rel, want_rel) in [
        (0, "$ENV{L4V_DIR}/app.log", "sub/dir/app.log"),
        (1, "x/$ENV{L4V_DIR}/$ENV{L4V_A}.log", "x/sub/dir/plain.log"),
        (2, "$ENV{L4V_UNSET}/app.log", "$ENV{L4V_UNSET}/app.log"),
        (3, "x/$ENV{L4V_ABSV}/app.log", "x/abs/inner/app.log"),
        (4, "x$ENV{L4V_ABSV}/y$ENV{L4V_ABSV}.log", "x/abs/inner/y/abs/inner.log"),
    ] {
        for site in 0..3 {
            let sc = Scratch::new("c19d");
            let raw = format!("{}/{}", sc.path.to_str().unwrap(), raw_rel);
            rep.case_enumerated(true);
            let r = trap::catch(|| -> Result<(), String> {
                match site {
                    0 => FileAppender::builder().build(&raw).map(|_| ()).map_err(|e| e.to_string()),
                    1 => RollingFileAppender::builder()
                        .build(&raw, Box::new(CompoundPolicy::new(Box::new(SizeTrigger::new(1 << 30)), Box::new(DeleteRoller::new()))))
                        .map(|_| ())
                        .map_err(|e| e.to_string()),
                    _ => {
                        let active = sc.path.join("active.tmp");
                        std::fs::write(&active, b"x").map_err(|e| e.to_string())?;
                        let roller = FixedWindowRoller::builder().build(&format!("{}.{{}}", raw), 2).map_err(|e| e.to_string())?;
                        roller.roll(&active).map_err(|e| e.to_string())
                    }
                }
            });
            let want_file = if site == 2 { format!("{}.0", want_rel) } else { want_rel.to_owned() };
            let got = dir_files(&sc.path).keys().cloned().collect::<Vec<_>>();
            rep.count("locations_compared", 1);
            if !matches!(r, Ok(Ok(()))) || got != vec![want_file.clone()] {
                rep.violation("C19:wrong-location", json!({"case": {"input": raw_rel, "expected_file": want_file, "created": got, "directory_case": k, "call_site": site,
                    "result": format!("{:?}", r.map_err(|p| p.message))}}));
            }
        }
    }
}

pub fn run(rep: &mut Report) {
    setup_env();
    rep.rule = "path strings assembled from literal text (ASCII, non-ASCII), stray '$' '{' '}', '$ENV{' prefixes, well-formed \
        references to set / unset / empty-valued variables (names with '.', '_' and non-ASCII letters), repeated and adjacent \
        references, malformed ones (empty name, bad first character, bad inner character, missing brace, wrong case, nested), \
        strings in which a substitution creates text that looks like a later reference, and a variable whose value changes / disappears / returns between builds; each string is given to \
        FileAppender::build, RollingFileAppender::build or FixedWindowRoller::roll inside a fresh directory and the created \
        file's name is compared with a single-pass reference expansion; non-trivial = contains '$ENV{'; distinct = (string, call site)".to_owned();
    rep.assume("variable values are '$'-free (property precondition); path separators only in the dedicated directory cases");
    rep.assume("roller patterns whose input contains '{}' or a value with braces are skipped (order of index substitution and expansion is not judged)");
    let n = if rep.tier == "thorough" { 150_000 } else { 20_000 };
    run_cases(rep, "string", n, one_case);
    directory_cases(rep);
    if rep.only.is_none() {
        leading_reference_cases(rep);
        changing_value_cases(rep);
        non_unicode_value_case(rep);
    }
    rep.require(rep.counter("locations_compared") > 1000, "fewer than 1000 locations compared");
    rep.require(rep.counter("strings_with_at_least_one_substitution") > 500, "too few strings with substitutions");
}
