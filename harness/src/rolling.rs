//! Shared machinery for the rolling-file monitors (C05, C06, C08, C17):
//! W — window model, recording / scripted triggers, stream reconstruction.

use crate::c07::{archive_rel, compress, Comp};
use crate::frames::decode_archive;
use log4rs::append::rolling_file::policy::compound::roll::delete::DeleteRoller;
use log4rs::append::rolling_file::policy::compound::roll::fixed_window::FixedWindowRoller;
use log4rs::append::rolling_file::policy::compound::roll::Roll;
use log4rs::append::rolling_file::policy::compound::trigger::Trigger;
use log4rs::append::rolling_file::policy::compound::CompoundPolicy;
use log4rs::append::rolling_file::{LogFile, RollingFileAppender};
use log4rs::encode::Encode;
use serde_json::{json, Value};
use std::collections::{BTreeMap, VecDeque};
use std::path::{Path, PathBuf};
use std::sync::{Arc, Mutex};

pub const ACTIVE: &str = "app.log";

#[derive(Clone, Debug, PartialEq)]
pub enum RollerKind {
    Delete,
    Window { base: u32, count: u32, comp: Comp, pattern_rel: String },
}

impl RollerKind {
    pub fn describe(&self) -> Value {
        match self {
            RollerKind::Delete => json!("delete"),
            RollerKind::Window { base, count, comp, pattern_rel } => {
                json!({"fixed_window": {"base": base, "count": count, "pattern": pattern_rel, "compression": format!("{:?}", comp)}})
            }
        }
    }
    pub fn build(&self, root: &Path) -> anyhow::Result<Box<dyn Roll>> {
        match self {
            RollerKind::Delete => Ok(Box::new(DeleteRoller::new())),
            RollerKind::Window { base, count, pattern_rel, .. } => Ok(Box::new(
                FixedWindowRoller::builder()
                    .base(*base)
                    .build(&format!("{}/{}", root.to_str().unwrap(), pattern_rel), *count)?,
            )),
        }
    }
    pub fn managed(&self) -> Vec<(u64, String)> {
        match self {
            RollerKind::Delete => vec![],
            RollerKind::Window { base, count, pattern_rel, .. } => (*base as u64..*base as u64 + *count as u64)
                .map(|i| (i, archive_rel(pattern_rel, i)))
                .collect(),
        }
    }
    pub fn count(&self) -> u64 {
        match self {
            RollerKind::Delete => 0,
            RollerKind::Window { count, .. } => *count as u64,
        }
    }
}

pub fn gen_roller(rng: &mut crate::rng::Rng, allow_compression: bool) -> RollerKind {
    if rng.chance(1, 8) {
        return RollerKind::Delete;
    }
    let comp = if allow_compression && cfg!(feature = "full") {
        match rng.below(6) {
            0 => Comp::Gz,
            1 => Comp::Zst,
            _ => Comp::None,
        }
    } else {
        Comp::None
    };
    let mut pattern_rel = (*rng.pick(&["app.{}.log", "arch/app.{}.log", "arch/{}/app.log"])).to_owned();
    match comp {
        Comp::Gz => pattern_rel.push_str(".gz"),
        Comp::Zst => pattern_rel.push_str(".zst"),
        Comp::None => {}
    }
    RollerKind::Window {
        base: *rng.pick(&[0u32, 0, 1, 7]),
        count: *rng.pick(&[0u32, 1, 1, 2, 2, 3, 3, 5]),
        comp,
        pattern_rel,
    }
}

/// W — the on-disk retention window (decoded contents by index).
#[derive(Clone, Debug, Default)]
pub struct WinModel {
    pub map: BTreeMap<u64, Vec<u8>>,
}

impl WinModel {
    pub fn roll(&mut self, kind: &RollerKind, content: Vec<u8>) {
        if let RollerKind::Window { base, count, .. } = kind {
            let (b, c) = (*base as u64, *count as u64);
            if c == 0 {
                return;
            }
            for i in (b..b + c - 1).rev() {
                if let Some(x) = self.map.remove(&i) {
                    self.map.insert(i + 1, x);
                }
            }
            self.map.insert(b, content);
        }
    }
    /// Oldest to newest.
    pub fn stream(&self) -> Vec<u8> {
        let mut out = vec![];
        for (_, v) in self.map.iter().rev() {
            out.extend_from_slice(v);
        }
        out
    }
}

// ---------------------------------------------------------------- triggers

#[derive(Clone, Debug)]
pub struct Decision {
    pub len_estimate: u64,
    pub disk_len: Option<u64>,
    pub result: Result<bool, String>,
}

/// Delegates to a real trigger and records what it was shown and what it said.
#[derive(Debug)]
pub struct RecTrigger {
    pub inner: Box<dyn Trigger>,
    pub log: Arc<Mutex<Vec<Decision>>>,
}

impl Trigger for RecTrigger {
    fn trigger(&self, file: &LogFile) -> anyhow::Result<bool> {
        let len_estimate = file.len_estimate();
        let disk_len = std::fs::metadata(file.path()).ok().map(|m| m.len());
        let r = self.inner.trigger(file);
        self.log.lock().unwrap().push(Decision {
            len_estimate,
            disk_len,
            result: match &r {
                Ok(b) => Ok(*b),
                Err(e) => Err(e.to_string()),
            },
        });
        r
    }
    fn is_pre_process(&self) -> bool {
        self.inner.is_pre_process()
    }
}

/// A user-defined trigger with scripted decisions, in pre- or post-processing mode.
#[derive(Debug)]
pub struct Script {
    pub pre: bool,
    pub decisions: Mutex<VecDeque<bool>>,
}

impl Trigger for Script {
    fn trigger(&self, _file: &LogFile) -> anyhow::Result<bool> {
        Ok(self.decisions.lock().unwrap().pop_front().unwrap_or(false))
    }
    fn is_pre_process(&self) -> bool {
        self.pre
    }
}

pub fn build_appender(
    root: &Path,
    append_mode: bool,
    encoder: Box<dyn Encode>,
    trigger: Box<dyn Trigger>,
    roller: Box<dyn Roll>,
) -> std::io::Result<RollingFileAppender> {
    RollingFileAppender::builder()
        .append(append_mode)
        .encoder(encoder)
        .build(root.join(ACTIVE), Box::new(CompoundPolicy::new(trigger, roller)))
}

// ------------------------------------------------------------ observation

/// All regular files below `root`: relative path -> bytes.
pub fn dir_files(root: &Path) -> BTreeMap<String, Vec<u8>> {
    crate::fsutil::snapshot(root).map(|s| crate::fsutil::files_of(&s)).unwrap_or_default()
}

/// `concat(archives, highest index -> base, decoded) ++ active`.
pub fn read_stream(files: &BTreeMap<String, Vec<u8>>, kind: &RollerKind) -> Result<Vec<u8>, String> {
    let mut out = vec![];
    for (_, name) in kind.managed().iter().rev() {
        if let Some(b) = files.get(name) {
            out.extend(decode_archive(name, b).map_err(|e| format!("archive {}: {}", name, e))?);
        }
    }
    if let Some(b) = files.get(ACTIVE) {
        out.extend_from_slice(b);
    }
    Ok(out)
}

/// Compares the directory with the exact model. `active`: expected content of
/// the active file (`None` = must be absent).
pub fn compare_dir(
    files: &BTreeMap<String, Vec<u8>>,
    kind: &RollerKind,
    win: &WinModel,
    active: &Option<Vec<u8>>,
) -> Result<(), (String, String)> {
    match (files.get(ACTIVE), active) {
        (None, None) => {}
        (Some(g), Some(w)) if g == w => {}
        (Some(g), Some(w)) => {
            return Err(("active-file-content".into(), format!(
                "active file has {} bytes, the model expects {} bytes; tail got {:?} / expected {:?}",
                g.len(), w.len(),
                crate::fsutil::show_bytes(&g[g.len().saturating_sub(60)..]),
                crate::fsutil::show_bytes(&w[w.len().saturating_sub(60)..]))));
        }
        (Some(g), None) => return Err(("active-file-should-be-absent".into(), format!("active file exists with {} bytes although it was just rotated away", g.len()))),
        (None, Some(w)) => return Err(("active-file-missing".into(), format!("active file is absent, the model expects {} bytes", w.len()))),
    }
    let managed = kind.managed();
    for (i, name) in &managed {
        match (files.get(name), win.map.get(i)) {
            (None, None) => {}
            (Some(raw), Some(want)) => {
                let got = decode_archive(name, raw).map_err(|e| ("archive-does-not-decode".to_owned(), format!("{}: {}", name, e)))?;
                if &got != want {
                    return Err(("archive-content".into(), format!("archive {} holds {} bytes, the model expects {} bytes", name, got.len(), want.len())));
                }
            }
            (Some(_), None) => return Err(("unexpected-archive".into(), format!("archive {} exists, the model has none at index {}", name, i))),
            (None, Some(_)) => return Err(("archive-missing".into(), format!("archive {} (index {}) is missing", name, i))),
        }
    }
    for name in files.keys() {
        if name != ACTIVE && !managed.iter().any(|(_, n)| n == name) {
            return Err(("foreign-file".into(), format!("unexpected file {} in the log directory", name)));
        }
    }
    Ok(())
}

/// Pre-populates the window with `n` archives (newest at base) holding the given contents.
pub fn seed_window(root: &Path, kind: &RollerKind, win: &mut WinModel, contents: Vec<Vec<u8>>) {
    if let RollerKind::Window { base, count, comp, pattern_rel } = kind {
        for (j, c) in contents.into_iter().enumerate() {
            if j as u64 >= *count as u64 {
                break;
            }
            let i = *base as u64 + j as u64;
            let p: PathBuf = root.join(archive_rel(pattern_rel, i));
            std::fs::create_dir_all(p.parent().unwrap()).unwrap();
            std::fs::write(&p, compress(*comp, &c)).unwrap();
            win.map.insert(i, c);
        }
    }
}
