//! Thorough tier: the same monitors under the Miri interpreter, one seeded
//! schedule per process (`cargo +nightly miri run -- miri <Cxx> <seed>`).

use crate::report::Report;
use serde_json::{json, Value};
use std::process::Command;
use std::time::{Duration, Instant};

fn harness_dir() -> std::path::PathBuf {
    std::path::PathBuf::from(env!("CARGO_MANIFEST_DIR"))
}

fn one(prop: &str, seed: u64, quiet_build: bool) -> Result<(Option<i32>, String, String), String> {
    let mut cmd = Command::new("cargo");
    cmd.current_dir(harness_dir())
        .args(["+nightly", "miri", "run", "--quiet", "--no-default-features", "--", "miri", prop, &seed.to_string()])
        .env("MIRIFLAGS", format!("-Zmiri-disable-isolation -Zmiri-permissive-provenance -Zmiri-seed={} -Zmiri-preemption-rate=0.1", seed))
        .env("CARGO_TARGET_DIR", harness_dir().join("target-miri"))
        .env("CARGO_NET_OFFLINE", "true")
        .env_remove("RUSTFLAGS");
    let _ = quiet_build;
    let start = Instant::now();
    let out = cmd.output().map_err(|e| e.to_string())?;
    let _ = start;
    Ok((out.status.code(), String::from_utf8_lossy(&out.stdout).into_owned(), String::from_utf8_lossy(&out.stderr).into_owned()))
}

/// Runs `seeds` Miri processes (16 at a time) and merges what their monitors saw.
pub fn run_miri_seeds(rep: &mut Report, prop: &str, seeds: u64) {
    if rep.only.is_some() || std::env::var("L4V_SUBRUN").is_ok() {
        return;
    }
    let t0 = Instant::now();
    // first run builds the Miri target (serialised by cargo's lock anyway)
    let base = rep.seed % 1_000_000;
    let mut results: Vec<(u64, Result<(Option<i32>, String, String), String>)> = vec![(base, one(prop, base, false))];
    if let (_, Ok((code, _, err))) = &results[0] {
        if *code != Some(0) && (err.contains("error: could not compile") || err.contains("no such command") || err.contains("is not installed")) {
            rep.inconclusive(&format!("Miri is unavailable or the harness does not build under it: {}", err.lines().take(4).collect::<Vec<_>>().join(" | ")));
            return;
        }
    }
    let rest: Vec<u64> = (1..seeds).map(|k| base + k).collect();
    for chunk in rest.chunks(16) {
        let rs: Vec<(u64, Result<(Option<i32>, String, String), String>)> = std::thread::scope(|s| {
            let hs: Vec<_> = chunk.iter().map(|k| { let k = *k; s.spawn(move || (k, one(prop, k, true))) }).collect();
            hs.into_iter().map(|h| h.join().unwrap()).collect()
        });
        results.extend(rs);
        if t0.elapsed() > Duration::from_secs(900) {
            rep.inconclusive("Miri seeds took longer than 15 minutes (watchdog); remaining seeds skipped");
            break;
        }
    }
    for (seed, r) in results {
        match r {
            Err(e) => rep.inconclusive(&format!("cannot run cargo miri: {}", e)),
            Ok((code, out, err)) => {
                let line = out.lines().rev().find(|l| l.starts_with("RESULT "));
                match line {
                    Some(line) => {
                        let v: Value = serde_json::from_str(&line[7..]).unwrap_or(Value::Null);
                        rep.count("miri_seeds_run", 1);
                        rep.case(&format!("miri|{}|{}", prop, seed), true);
                        for (k, c) in v["counters"].as_object().cloned().unwrap_or_default() {
                            rep.count(&format!("miri_{}", k), c.as_i64().unwrap_or(0));
                        }
                        for (k, set) in v["sets"].as_object().cloned().unwrap_or_default() {
                            for e in set.as_array().cloned().unwrap_or_default() {
                                rep.observe(&format!("miri_{}", k), &e.to_string());
                            }
                        }
                        for viol in v["violations"].as_array().cloned().unwrap_or_default() {
                            rep.violation(viol["signature"].as_str().unwrap_or("miri"), json!({"miri_seed": seed, "detail": viol["detail"]}));
                        }
                        for r in v["inconclusive"].as_array().cloned().unwrap_or_default() {
                            rep.inconclusive(&format!("miri seed {}: {}", seed, r.as_str().unwrap_or("")));
                        }
                    }
                    None => {
                        if err.contains("Undefined Behavior") || err.contains("Data race detected") || err.contains("data race") {
                            let excerpt: String = err.lines().filter(|l| l.contains("error") || l.contains("-->") || l.contains("race")).take(12).collect::<Vec<_>>().join("\n");
                            rep.violation(&format!("{}:miri:undefined-behaviour-or-data-race", prop), json!({"miri_seed": seed, "report": excerpt}));
                        } else if err.contains("panicked at") && err.contains("/repo/") {
                            rep.violation(&format!("{}:miri:panic", prop), json!({"miri_seed": seed, "stderr": err.chars().take(1500).collect::<String>()}));
                        } else {
                            rep.inconclusive(&format!("miri seed {} ended without a result (exit {:?}): {}", seed, code, err.lines().rev().take(3).collect::<Vec<_>>().join(" | ")));
                        }
                    }
                }
            }
        }
    }
    rep.assume("Miri runs execute a tiny workload per seed (2-3 threads, a handful of records) with -Zmiri-preemption-rate=0.1; they add seeded schedules and UB / data-race detection in whatever the workload reaches");
}
