//! Panic trap: run a closure, catching any panic together with its message
//! and source location, without letting the default hook spam stderr.

use std::cell::{Cell, RefCell};
use std::panic::{self, AssertUnwindSafe};
use std::sync::Once;

#[derive(Clone, Debug)]
pub struct PanicRec {
    pub message: String,
    pub file: String,
    pub line: u32,
}

impl PanicRec {
    /// `file:line` with the /repo prefix removed, usable in a signature.
    pub fn site(&self) -> String {
        let f = self
            .file
            .strip_prefix("/repo/")
            .unwrap_or(&self.file)
            .to_owned();
        format!("{}:{}", f, self.line)
    }
    /// True when the panic originated in log4rs' own sources.
    pub fn in_repo(&self) -> bool {
        self.file.starts_with("/repo/") || self.file.starts_with("src/")
    }
}

thread_local! {
    static TRAPPING: Cell<u32> = const { Cell::new(0) };
    static LAST: RefCell<Option<PanicRec>> = const { RefCell::new(None) };
}

static INSTALL: Once = Once::new();

pub fn install() {
    INSTALL.call_once(|| {
        let default = panic::take_hook();
        panic::set_hook(Box::new(move |info| {
            let trapping = TRAPPING.with(|t| t.get()) > 0;
            if trapping {
                let message = if let Some(s) = info.payload().downcast_ref::<&str>() {
                    (*s).to_owned()
                } else if let Some(s) = info.payload().downcast_ref::<String>() {
                    s.clone()
                } else {
                    "<non-string panic payload>".to_owned()
                };
                let (file, line) = info
                    .location()
                    .map(|l| (l.file().to_owned(), l.line()))
                    .unwrap_or_else(|| ("<unknown>".to_owned(), 0));
                LAST.with(|l| {
                    *l.borrow_mut() = Some(PanicRec {
                        message,
                        file,
                        line,
                    })
                });
            } else {
                default(info);
            }
        }));
    });
}

/// Runs `f`; a panic inside it is returned as `Err` with message and location.
pub fn catch<T>(f: impl FnOnce() -> T) -> Result<T, PanicRec> {
    install();
    TRAPPING.with(|t| t.set(t.get() + 1));
    let r = panic::catch_unwind(AssertUnwindSafe(f));
    TRAPPING.with(|t| t.set(t.get() - 1));
    match r {
        Ok(v) => Ok(v),
        Err(_) => Err(LAST.with(|l| l.borrow_mut().take()).unwrap_or(PanicRec {
            message: "<panic not recorded>".to_owned(),
            file: "<unknown>".to_owned(),
            line: 0,
        })),
    }
}

/// Marks the current thread as trapping for its whole life (worker threads
/// spawned inside a case whose panics are collected through `join`).
pub fn trap_this_thread() {
    install();
    TRAPPING.with(|t| t.set(t.get() + 1));
}

pub fn take_last() -> Option<PanicRec> {
    LAST.with(|l| l.borrow_mut().take())
}
