//! C11 — any pattern string is safe: no panic, errors surface as {ERROR: ...} markers.

use crate::par::run_cases;
use crate::pattern_model::*;
use crate::report::Report;
use crate::rng::Rng;
use crate::trap;
use chrono::{Local, Utc};
use log4rs::encode::pattern::PatternEncoder;
use log4rs::encode::Encode;
use serde_json::{json, Value};

const ALPHABET: [char; 12] = ['{', '}', '(', ')', '\\', ':', '.', '<', '>', '9', 'm', '%'];

/// Largest explicit decimal number in the pattern (saturating).
fn max_number(p: &str) -> u128 {
    let mut best = 0u128;
    let mut cur: Option<u128> = None;
    for c in p.chars() {
        if let Some(d) = c.to_digit(10) {
            let v = cur.unwrap_or(0).saturating_mul(10).saturating_add(d as u128);
            cur = Some(v);
            best = best.max(v);
        } else {
            cur = None;
        }
    }
    best
}

pub enum Outcome {
    Ok { text: Vec<u8>, encode_err: Option<String>, budget_hit: bool },
    Skipped,
}

/// Constructs and (unless widths are absurd but representable) encodes; any
/// panic is reported as a violation and `None` returned.
fn exercise(rep: &mut Report, pattern: &str, ctx: &RecCtx, what: &str) -> Option<Outcome> {
    let enc = match trap::catch(|| PatternEncoder::new(pattern)) {
        Ok(e) => e,
        Err(p) => {
            rep.violation(&format!("C11:panic:new:{}", if p.in_repo() { p.site() } else { "std".into() }),
                json!({"pattern": pattern, "family": what, "panic": p.message}));
            return None;
        }
    };
    rep.count("constructed", 1);
    let big = max_number(pattern);
    if big > 1_000_000 && big < (1u128 << 64) {
        // representable but absurd width: construction only (as the property allows)
        return Some(Outcome::Skipped);
    }
    let mut w = CapW::new();
    w.budget = Some(8 << 20);
    let pieces = vec![ctx.message.clone()];
    let r = trap::catch(|| with_record(ctx, &pieces, |rec| enc.encode(&mut w, rec)));
    rep.count("encoded", 1);
    match r {
        Err(p) => {
            let site = if p.in_repo() {
                p.site()
            } else if p.message.contains("formatting trait implementation returned an error") {
                "std-write_fmt-formatting-error".to_owned()
            } else {
                "std".to_owned()
            };
            rep.violation(&format!("C11:panic:encode:{}", site), json!({"pattern": pattern, "family": what, "panic": p.message}));
            None
        }
        Ok(res) => {
            // a share of the patterns is also used for a record whose message, while being formatted, encodes
            // another record through the same encoder ("any record")
            if pattern.len() % 8 == 3 || what == "tail" {
                let mut inner = ctx.clone();
                inner.message = "inner é".into();
                let nest = NestingMsg { enc: &enc, inner: &inner, text: &ctx.message, inner_out: Default::default() };
                let mut w2 = CapW::new();
                w2.budget = Some(8 << 20);
                rep.count("encoded_with_a_nested_encode", 1);
                if let Err(p) = trap::catch(|| with_record_display(ctx, &nest, |rec| enc.encode(&mut w2, rec))) {
                    rep.violation(&format!("C11:panic:encode-while-encoding:{}", if p.in_repo() { p.site() } else { "std".into() }),
                        json!({"pattern": pattern, "family": what, "panic": p.message}));
                    return None;
                }
            }
            if std::str::from_utf8(&w.bytes).is_err() {
                rep.violation("C11:invalid-utf8", json!({"pattern": pattern, "family": what,
                    "output": String::from_utf8_lossy(&w.bytes)}));
            }
            Some(Outcome::Ok { text: w.bytes.clone(), encode_err: res.err().map(|e| e.to_string()), budget_hit: w.budget_hit })
        }
    }
}

fn plain_ctx(rng: &mut Rng) -> RecCtx {
    let mut c = gen_ctx(rng, &[]);
    c.mdc.clear();
    log_mdc::clear();
    c
}

/// Malformed pieces that can stand inside a parenthesised group argument and are complete in themselves (an
/// unterminated formatter such as `{m` or `{m:x` swallows the group's closing parenthesis: then the group itself
/// is the malformed item and only what precedes the *group* has to render).
const GROUP_TAILS: [&str; 6] = ["}", "{foo}", "{X}", "{d(%Q)}", "{l(a)}", "{Thread}"];

const MALFORMED: [&str; 54] = [
    "{", "{m", "{m:", "{m:5", "{m:>", "{d(%Y", "{h(", "{(", "{h(a{m)", "{d(%Y)(utc", "}", "(", ")", "a)b", "\\", "\\x", "\\9",
    "{x}", "{foo}", "{Thread}", "{é}", "{mm}", "{m(a)}", "{l(a)}", "{n()}", "{t(a)(b)}", "{P(x)}", "{h}", "{h(a)(b)}", "{D}",
    "{R(a)(b)}", "{()()}", "{}", "{:5}", "{d(a)(utc)(c)}", "{X}", "{X(a)(b)(c)}", "{d(%Y)(UTC)}", "{d(%Y)(est)}", "{d(%Y)()}",
    "{d(%Y)({m})}", "{d(%Q)}", "{d(%Y-%m-%d %!)}", "{d(%-)}", "{m:99999999999999999999999}", "{m:.18446744073709551616}",
    "{m:>18446744073709551616.18446744073709551617}", "{m:x}", "{m 5}",
    // syntax errors and formatters inside an MDC argument
    "{X(user}id)}", "{X(missing)(n/a {l})}", "{X(a{m}b)}", "{X(k)(d}e)}", "{X({)}",
];

pub fn run(rep: &mut Report) {
    crate::c09::set_test_zone();
    let thorough = rep.tier == "thorough";
    let max_len: u32 = if thorough { 7 } else { 6 };
    rep.rule = format!("(a) every string over the 12-symbol syntax alphabet {{ }} ( ) \\ : . < > 9 m % up to length {} \
        (exhaustive; plus every string over {{ }} ( ) X d h D : é 5 > up to one less), (a3) every date format made of a percent sign + 1-2 printable ASCII characters or + 3 characters over the flag/letter alphabet of chrono, local and utc, (b) single-character edits of generated well-formed patterns, (c) well-formed prefix V + separator + each of {} \
        malformed tails (unclosed/unmatched delimiters, lone backslash, unknown formatters, wrong arity for the formatters, bad \
        time zones, invalid strftime directives, widths >= 2^64), (d) random Unicode strings; each constructed and encoded under \
        a panic trap (encoding skipped only for representable explicit widths > 10^6); non-trivial = contains '{{' or an \
        escape; distinct = distinct pattern string", max_len, MALFORMED.len());
    rep.assume("encode() is not run for explicit widths in (10^6, 2^64); the sink refuses more than 8 MiB");
    rep.assume(&format!("profile: {}", if cfg!(debug_assertions) { "dev (overflow checks on)" } else { "release (overflow wraps)" }));

    // (a) exhaustive
    let mut total: u64 = 0;
    let mut offsets = vec![];
    for l in 0..=max_len {
        offsets.push(total);
        total += 12u64.pow(l);
    }
    rep.set_extra("exhaustive_strings", json!(total));
    let offs = &offsets;
    run_cases(rep, "alphabet", total, |rep, rng, idx| {
        let l = (0..offs.len()).rev().find(|&l| offs[l] <= idx).unwrap();
        let mut k = idx - offs[l];
        let mut s = String::with_capacity(l);
        for _ in 0..l {
            s.push(ALPHABET[(k % 12) as usize]);
            k /= 12;
        }
        let mut ctx = plain_ctx(rng);
        ctx.message = "é𝄞msg".into();
        rep.case_enumerated(s.contains('{') || s.contains('\\'));
        exercise(rep, &s, &ctx, "alphabet");
        if idx == 1000 || idx == 200_000 {
            rep.sample(json!({"pattern": s, "family": "alphabet"}));
        }
    });
    rep.exhaustive = Some(false);
    rep.set_extra("alphabet_sweep_exhaustive_to_length", json!(max_len));

    // (a2) a second exhaustive sweep over formatter names with arguments and a non-ASCII character
    const ALPHABET2: [char; 12] = ['{', '}', '(', ')', 'X', 'd', 'h', 'D', ':', 'é', '5', '>'];
    let max2 = max_len - 1;
    let mut total2: u64 = 0;
    let mut offsets2 = vec![];
    for l in 0..=max2 {
        offsets2.push(total2);
        total2 += 12u64.pow(l);
    }
    let offs2 = &offsets2;
    rep.set_extra("exhaustive_strings_second_alphabet", json!(total2));
    run_cases(rep, "alphabet2", total2, |rep, rng, idx| {
        let l = (0..offs2.len()).rev().find(|&l| offs2[l] <= idx).unwrap();
        let mut k = idx - offs2[l];
        let mut s = String::with_capacity(l);
        for _ in 0..l {
            s.push(ALPHABET2[(k % 12) as usize]);
            k /= 12;
        }
        let mut ctx = plain_ctx(rng);
        ctx.message = "é𝄞msg".into();
        rep.case_enumerated(s.contains('{'));
        exercise(rep, &s, &ctx, "alphabet2");
    });

    // (a3) strftime directives: every "%" + 1..2 printable ASCII characters, and "%" + 3 characters over the
    // flag / digit / letter alphabet chrono knows, in local and utc dates
    let printable: Vec<char> = (0x21u8..0x7f).map(|b| b as char).filter(|c| !"(){}\\".contains(*c)).collect();
    let small: Vec<char> = "#:.-_^+0369fzZsSdDYmMHIpPjTRrcxXvVeEkKlLnNt%aAbBhgGuUwWyC".chars().collect();
    let n1 = printable.len() as u64;
    let n2 = n1 * n1;
    let n3 = (small.len() as u64).pow(3);
    let (printable_ref, small_ref) = (&printable, &small);
    run_cases(rep, "strftime", 2 * (n1 + n2 + n3), |rep, rng, idx| {
        let utc = idx % 2 == 1;
        let k = idx / 2;
        let spec: String = if k < n1 {
            printable_ref[k as usize].to_string()
        } else if k < n1 + n2 {
            let j = k - n1;
            format!("{}{}", printable_ref[(j / n1) as usize], printable_ref[(j % n1) as usize])
        } else {
            let j = k - n1 - n2;
            let m = small_ref.len() as u64;
            format!("{}{}{}", small_ref[(j / (m * m)) as usize], small_ref[(j / m % m) as usize], small_ref[(j % m) as usize])
        };
        let pattern = format!("[{{d(%{}){}}}]", spec, if utc { "(utc)" } else { "" });
        let ctx = plain_ctx(rng);
        rep.case_enumerated(true);
        rep.count("strftime_directives_tried", 1);
        exercise(rep, &pattern, &ctx, "strftime");
    });

    // (b) single edits of valid patterns
    let n = if thorough { 600_000 } else { 60_000 };
    run_cases(rep, "edit", n, |rep, rng, idx| {
        let o = GenOpts { max_depth: 3, allow_default_date: true, allow_profile_groups: true, spec_prob: (1, 2), mdc_keys: vec!["user".into()] };
        let mut hole = 1;
        let nodes = gen_nodes(rng, &o, 0, &mut hole, false);
        let pat: Vec<char> = print(&nodes, rng, false).chars().collect();
        let mut v = pat.clone();
        let edits = 1 + rng.usize_below(2);
        for _ in 0..edits {
            let pos = rng.usize_below(v.len() + 1);
            let c = *rng.pick(&['{', '}', '(', ')', '\\', ':', '.', '<', '>', '9', '0', 'm', '%', 'é', ' ', 'Q']);
            match rng.below(3) {
                0 => v.insert(pos, c),
                1 if pos < v.len() => {
                    v.remove(pos);
                }
                _ if pos < v.len() => v[pos] = c,
                _ => v.push(c),
            }
        }
        let s: String = v.into_iter().collect();
        let ctx = plain_ctx(rng);
        rep.case(&s, true);
        exercise(rep, &s, &ctx, "edit");
        if idx == 0 {
            rep.sample(json!({"pattern": s, "family": "edit"}));
        }
    });

    // (c) V + M
    let n = if thorough { 200_000 } else { 20_000 };
    run_cases(rep, "tail", n, |rep, rng, idx| {
        let o = GenOpts { max_depth: 2, allow_default_date: false, allow_profile_groups: false, spec_prob: (1, 3), mdc_keys: vec![] };
        let mut hole = 0;
        let mut nodes = gen_nodes(rng, &o, 0, &mut hole, false);
        // keep V deterministic: no dates, no MDC
        fn strip(ns: &mut Vec<Node>) {
            ns.retain(|n| !matches!(n, Node::Fmt(Kind::Date { .. }, _) | Node::Fmt(Kind::Mdc { .. }, _) | Node::Fmt(Kind::ThreadId, _)));
            for n in ns.iter_mut() {
                if let Node::Fmt(Kind::Group(c) | Kind::Highlight(c) | Kind::Debug(c) | Kind::Release(c), _) = n {
                    strip(c);
                }
            }
        }
        strip(&mut nodes);
        nodes.push(Node::Text("|".into()));
        let v = print(&nodes, rng, false);
        let m = MALFORMED[(idx as usize) % MALFORMED.len()];
        let pattern = format!("{}{}", v, m);
        let ctx = plain_ctx(rng);
        let now = Utc::now();
        let expected: String = text_of(&render(&nodes, &ctx, &now.with_timezone(&Local), &now));
        rep.case(&pattern, true);
        rep.count("malformed_tail_cases", 1);
        match exercise(rep, &pattern, &ctx, "tail") {
            None | Some(Outcome::Skipped) => {}
            Some(Outcome::Ok { text, encode_err, budget_hit }) => {
                let got = String::from_utf8_lossy(&text).into_owned();
                let d = |what: &str| -> Value {
                    json!({"pattern": pattern, "well_formed_prefix": v, "malformed_tail": m, "what": what,
                           "expected_prefix": expected, "got": crate::fsutil::show_bytes(&text), "encode_error": encode_err})
                };
                if budget_hit {
                    rep.violation(&format!("C11:absurd-width-not-surfaced:{}", m), d("more than 8 MiB of output were attempted instead of an error"));
                } else if !got.starts_with(&expected) {
                    rep.violation("C11:prefix-before-error-not-rendered", d("text/formatters preceding the error did not render"));
                } else if encode_err.is_none() && !got[expected.len()..].contains("{ERROR: ") {
                    rep.violation(&format!("C11:error-not-surfaced:{}", m), d("neither an {ERROR: ...} marker nor a returned error"));
                }
            }
        }
        if idx == 7 {
            rep.sample(json!({"pattern": pattern, "family": "well-formed prefix + malformed tail", "expected_prefix": expected}));
        }
    });

    // (c2) the same inside a group: what precedes the error inside the group still renders
    let n = if thorough { 60_000 } else { 6_000 };
    run_cases(rep, "tail-in-group", n, |rep, rng, idx| {
        let o = GenOpts { max_depth: 1, allow_default_date: false, allow_profile_groups: false, spec_prob: (0, 1), mdc_keys: vec![] };
        let mut hole = 0;
        let mut nodes = gen_nodes(rng, &o, 0, &mut hole, false);
        nodes.retain(|n| matches!(n, Node::Text(_) | Node::Fmt(Kind::Level | Kind::Target | Kind::Message | Kind::Newline, None)));
        nodes.push(Node::Text("|".into()));
        let v = print(&nodes, rng, true);
        let m = GROUP_TAILS[(idx as usize) % GROUP_TAILS.len()];
        // the group with and without a width specification of its own (a maximum far beyond any output, a
        // minimum below it, left alignment): none of them may change what is rendered before the error
        let gspec = ["", ":.100000", ":1.100000", ":<2.99999"][((idx / GROUP_TAILS.len() as u64) % 4) as usize];
        let pattern = format!("<{{({}{} rest){}}}>", v, m, gspec);
        if !gspec.is_empty() {
            rep.count("malformed_tail_in_group_with_group_width_cases", 1);
        }
        let ctx = plain_ctx(rng);
        let now = Utc::now();
        let expected: String = format!("<{}", text_of(&render(&nodes, &ctx, &now.with_timezone(&Local), &now)));
        rep.case(&pattern, true);
        rep.count("malformed_tail_in_group_cases", 1);
        if let Some(Outcome::Ok { text, encode_err, .. }) = exercise(rep, &pattern, &ctx, "tail-in-group") {
            let got = String::from_utf8_lossy(&text).into_owned();
            if !got.starts_with(&expected) {
                rep.violation(&format!("C11:prefix-before-error-not-rendered:inside-a-group:{}", m), json!({"pattern": pattern, "expected_prefix": expected, "got": got}));
            } else if encode_err.is_none() && !got.contains("{ERROR: ") {
                rep.violation("C11:error-not-surfaced:inside-a-group", json!({"pattern": pattern, "got": got}));
            }
        }
    });

    // (e) long non-ASCII text wherever the user's text may be quoted back in an error marker: every byte
    // offset up to ~300 falls inside a multi-byte character in one of the variants
    let mut long_cases: Vec<String> = vec![];
    for k in 0..4usize {
        for n in (5..45).chain(60..70).chain(120..135).chain(250..260) {
            for c in ['é', '日', '𝄞'] {
                let junk: String = "x".repeat(k) + &c.to_string().repeat(n);
                long_cases.push(format!("pre|{{{}}}", junk));
                long_cases.push(format!("pre|{{d(%Y {} %Q)}}", junk));
                long_cases.push(format!("pre|{{d(%Y)({})}}", junk));
                long_cases.push(format!("pre|{{m:{}}}", junk));
                long_cases.push(format!("pre|{{X({})({})}}|{{{}({})}}", junk, junk, junk, junk));
            }
        }
    }
    // characters that are not digits but look like digits to sloppy arithmetic (low byte 0x30..0x39), in width positions
    for hi in [0x01u32, 0x04, 0x4e, 0x1f6, 0xff] {
        for lo in 0x30u32..0x3a {
            if let Some(c) = char::from_u32(hi << 8 | lo) {
                long_cases.push(format!("pre|{{m:{}}}", c));
                long_cases.push(format!("pre|{{m:>{}5}}", c));
                long_cases.push(format!("pre|{{m:4.{}}}", c));
                long_cases.push(format!("pre|{{m:{}.{}}}", c, c));
            }
        }
    }
    let long_ref = &long_cases;
    run_cases(rep, "long-junk", long_cases.len() as u64, |rep, rng, idx| {
        let s = &long_ref[idx as usize];
        let ctx = plain_ctx(rng);
        rep.case_enumerated(true);
        rep.count("long_non_ascii_junk_patterns", 1);
        if let Some(Outcome::Ok { text, encode_err, .. }) = exercise(rep, s, &ctx, "long-junk") {
            let got = String::from_utf8_lossy(&text).into_owned();
            if !got.starts_with("pre|") {
                rep.violation("C11:prefix-before-error-not-rendered", json!({"pattern": s, "got": crate::fsutil::show_bytes(&text)}));
            } else if encode_err.is_none() && !got.contains("{ERROR: ") {
                // every pattern of this family is malformed (unknown formatter, bad date format or zone, junk in a width)
                rep.violation("C11:error-not-surfaced:junk", json!({"pattern": s, "got": crate::fsutil::show_bytes(&text)}));
            }
        }
    });

    // (d) random unicode
    let n = if thorough { 600_000 } else { 60_000 };
    run_cases(rep, "unicode", n, |rep, rng, _| {
        let pool: Vec<char> = "{}()\\:.<>0123456789mdhXltTn%é€𝄞 \u{0}\u{7f}\u{301}\u{feff}\u{10ffff}Yz-+".chars().collect();
        let len = rng.usize_below(24);
        let s: String = (0..len).map(|_| *rng.pick(&pool)).collect();
        let ctx = plain_ctx(rng);
        rep.case(&s, s.contains('{'));
        exercise(rep, &s, &ctx, "unicode");
    });
    rep.require(rep.counter("encoded") > 10_000, "fewer than 10000 patterns encoded");
}
