//! R — routing reference model, written from the property statement (not
//! from the trie in lib.rs), plus capturing appenders and config builders.

use crate::rng::Rng;
use log::{Level, LevelFilter, Record};
use log4rs::append::Append;
use log4rs::config::{Appender, Config, Logger, Root};
use serde_json::{json, Value};
use std::sync::{Arc, Mutex};

pub const LEVELS: [Level; 5] = [
    Level::Error,
    Level::Warn,
    Level::Info,
    Level::Debug,
    Level::Trace,
];
pub const FILTERS: [LevelFilter; 6] = [
    LevelFilter::Off,
    LevelFilter::Error,
    LevelFilter::Warn,
    LevelFilter::Info,
    LevelFilter::Debug,
    LevelFilter::Trace,
];

#[derive(Clone, Debug, PartialEq)]
pub struct LoggerSpec {
    pub name: String,
    pub level: LevelFilter,
    pub additive: bool,
    pub appenders: Vec<String>,
}

#[derive(Clone, Debug, PartialEq)]
pub struct ConfSpec {
    pub appenders: Vec<String>,
    pub root_level: LevelFilter,
    pub root_appenders: Vec<String>,
    pub loggers: Vec<LoggerSpec>,
}

impl ConfSpec {
    pub fn to_json(&self) -> Value {
        json!({
            "appenders": self.appenders,
            "root": {"level": self.root_level.to_string(), "appenders": self.root_appenders},
            "loggers": self.loggers.iter().map(|l| json!({
                "name": l.name, "level": l.level.to_string(), "additive": l.additive,
                "appenders": l.appenders})).collect::<Vec<_>>(),
        })
    }

    fn find(&self, name: &str) -> Option<&LoggerSpec> {
        self.loggers.iter().find(|l| l.name == name)
    }

    /// The configured logger whose name is the longest component-wise prefix
    /// of `target`; `None` = root.
    pub fn effective(&self, target: &str) -> Option<&LoggerSpec> {
        let comps: Vec<&str> = target.split("::").collect();
        for k in (1..=comps.len()).rev() {
            let name = comps[..k].join("::");
            if let Some(l) = self.find(&name) {
                return Some(l);
            }
        }
        None
    }

    fn parent_of(&self, name: &str) -> Option<&LoggerSpec> {
        let comps: Vec<&str> = name.split("::").collect();
        if comps.len() <= 1 {
            return None;
        }
        self.effective(&comps[..comps.len() - 1].join("::"))
    }

    /// Multiset of appender names attached to `logger` directly or through an
    /// unbroken chain of additive ancestors ending at the root.
    pub fn attachments(&self, logger: Option<&LoggerSpec>) -> Vec<String> {
        match logger {
            None => self.root_appenders.clone(),
            Some(l) => {
                let mut v = l.appenders.clone();
                if l.additive {
                    v.extend(self.attachments(self.parent_of(&l.name)));
                }
                v
            }
        }
    }

    pub fn level_of(&self, logger: Option<&LoggerSpec>) -> LevelFilter {
        logger.map(|l| l.level).unwrap_or(self.root_level)
    }

    pub fn enabled(&self, target: &str, level: Level) -> bool {
        self.level_of(self.effective(target)) >= level
    }

    /// Sorted multiset of appender names that must receive the record.
    pub fn expected(&self, target: &str, level: Level) -> Vec<String> {
        let eff = self.effective(target);
        let mut v = if self.level_of(eff) >= level {
            self.attachments(eff)
        } else {
            vec![]
        };
        v.sort();
        v
    }

    pub fn max_level(&self) -> LevelFilter {
        let mut m = self.root_level;
        for l in &self.loggers {
            m = m.max(l.level);
        }
        m
    }
}

// ------------------------------------------------------------------ capture

pub type Sink = Arc<Mutex<Vec<(String, u64)>>>;

/// An appender that records `(its own name, record id)`; the record id is the
/// decimal number the message consists of.
#[derive(Debug)]
pub struct Cap {
    pub name: String,
    pub sink: Sink,
}

impl Append for Cap {
    fn append(&self, record: &Record) -> anyhow::Result<()> {
        let id = record.args().to_string().parse::<u64>().unwrap_or(u64::MAX);
        self.sink.lock().unwrap().push((self.name.clone(), id));
        Ok(())
    }
    fn flush(&self) {}
}

/// Like `Cap`, but reports an error after recording the delivery (a full disk, a failed roll ...).
#[derive(Debug)]
pub struct FailingCap {
    pub name: String,
    pub sink: Sink,
}

impl Append for FailingCap {
    fn append(&self, record: &Record) -> anyhow::Result<()> {
        let id = record.args().to_string().parse::<u64>().unwrap_or(u64::MAX);
        self.sink.lock().unwrap().push((self.name.clone(), id));
        Err(anyhow::anyhow!("scripted failure of appender {}", self.name))
    }
    fn flush(&self) {}
}

/// An appender whose destructor panics (once): the configuration it belongs to is dropped inside
/// `Handle::set_config`, which then unwinds - after which facade and configuration must still agree.
#[derive(Debug)]
pub struct DropBomb;
pub const BOMB: &str = "BOMB";

impl Append for DropBomb {
    fn append(&self, _: &Record) -> anyhow::Result<()> {
        Ok(())
    }
    fn flush(&self) {}
}

impl Drop for DropBomb {
    fn drop(&mut self) {
        if !std::thread::panicking() {
            panic!("l4v: scripted panic in an appender's destructor");
        }
    }
}

pub fn new_sink() -> Sink {
    Arc::new(Mutex::new(vec![]))
}

/// Builds the log4rs configuration for `spec`, declaring appenders, loggers
/// and per-logger attachments in an order chosen by `rng` (or in spec order).
pub fn build_config(
    spec: &ConfSpec,
    sink: &Sink,
    tag: &str,
    rng: Option<&mut Rng>,
) -> Result<Config, String> {
    build_config_failing(spec, sink, tag, rng, &[])
}

/// `failing`: names of appenders that return an error from `append` (after recording the delivery).
pub fn build_config_failing(
    spec: &ConfSpec,
    sink: &Sink,
    tag: &str,
    mut rng: Option<&mut Rng>,
    failing: &[String],
) -> Result<Config, String> {
    let mut apps: Vec<&String> = spec.appenders.iter().collect();
    let mut logs: Vec<&LoggerSpec> = spec.loggers.iter().collect();
    if let Some(r) = rng.as_deref_mut() {
        r.shuffle(&mut apps);
        r.shuffle(&mut logs);
    }
    // builder entry points: one by one (0), in bulk (1), first item singly and the rest in bulk (2)
    let style = match rng.as_deref_mut() {
        Some(r) => r.below(3),
        None => 0,
    };
    let mut b = Config::builder();
    let mut built_apps: Vec<Appender> = vec![];
    for a in apps {
        let boxed: Box<dyn Append> = if a == BOMB {
            Box::new(DropBomb)
        } else if failing.contains(a) {
            Box::new(FailingCap { name: format!("{}{}", tag, a), sink: sink.clone() })
        } else {
            Box::new(Cap { name: format!("{}{}", tag, a), sink: sink.clone() })
        };
        built_apps.push(Appender::builder().build(a.clone(), boxed));
    }
    fn split<T>(mut v: Vec<T>, style: u64) -> (Vec<T>, Vec<T>) {
        match style {
            0 => (v, vec![]),
            1 => (vec![], v),
            _ => {
                let rest = if v.is_empty() { vec![] } else { v.split_off(1) };
                (v, rest)
            }
        }
    }
    let (one, bulk) = split(built_apps, style);
    for a in one {
        b = b.appender(a);
    }
    b = b.appenders(bulk);
    let mut built_logs: Vec<Logger> = vec![];
    for l in logs {
        let mut lb = Logger::builder().additive(l.additive);
        let (one, bulk) = split(l.appenders.clone(), style);
        for a in one {
            lb = lb.appender(a);
        }
        lb = lb.appenders(bulk);
        built_logs.push(lb.build(l.name.clone(), l.level));
    }
    let (one, bulk) = split(built_logs, style);
    for l in one {
        b = b.logger(l);
    }
    b = b.loggers(bulk);
    let mut rb = Root::builder();
    let (one, bulk) = split(spec.root_appenders.clone(), style);
    for a in one {
        rb = rb.appender(a);
    }
    rb = rb.appenders(bulk);
    b.build(rb.build(spec.root_level))
        .map_err(|e| format!("{:?}", e))
}

/// Logs one record directly through `Log::log` and returns the sorted
/// multiset of appender names that received it.
pub fn deliver(
    logger: &dyn log::Log,
    sink: &Sink,
    target: &str,
    level: Level,
    id: u64,
) -> Vec<String> {
    sink.lock().unwrap().clear();
    logger.log(
        &Record::builder()
            .target(target)
            .level(level)
            .args(format_args!("{}", id))
            .build(),
    );
    let mut got: Vec<String> = sink
        .lock()
        .unwrap()
        .drain(..)
        .map(|(n, rid)| {
            if rid == id {
                n
            } else {
                format!("{}#wrong-record-{}", n, rid)
            }
        })
        .collect();
    got.sort();
    got
}

// --------------------------------------------------------------- generators

pub const COMPONENTS: [&str; 6] = ["a", "b", "ab", "a_b", "é", "bc"];

pub fn gen_name(rng: &mut Rng, max_depth: usize) -> String {
    let depth = 1 + rng.usize_below(max_depth);
    let mut comps: Vec<String> = (0..depth)
        .map(|_| {
            // bias towards the first two components so that collisions,
            // ancestors and descendants are frequent
            if rng.chance(2, 3) {
                COMPONENTS[rng.usize_below(2)].to_owned()
            } else {
                (*rng.pick(&COMPONENTS)).to_owned()
            }
        })
        .collect();
    if rng.chance(1, 25) {
        comps.insert(0, String::new()); // leading "::"
    }
    comps.join("::")
}

pub fn gen_spec(rng: &mut Rng, max_loggers: usize, max_depth: usize) -> ConfSpec {
    let n_app = 1 + rng.usize_below(5);
    let appenders: Vec<String> = (0..n_app).map(|i| format!("A{}", i)).collect();
    let pick_apps = |rng: &mut Rng| -> Vec<String> {
        let k = match rng.below(8) {
            0..=2 => 0,
            3..=5 => 1,
            6 => 2,
            _ => 3,
        };
        (0..k).map(|_| rng.pick(&appenders).clone()).collect() // repeats allowed
    };
    let root_appenders = pick_apps(rng);
    let n_log = rng.usize_below(max_loggers + 1);
    let mut loggers: Vec<LoggerSpec> = vec![];
    let mut tries = 0;
    while loggers.len() < n_log && tries < 100 {
        tries += 1;
        // often derive from an existing logger: child, grand-child or sibling
        let name = if !loggers.is_empty() && rng.chance(1, 2) {
            let base = rng.pick(&loggers).name.clone();
            match rng.below(3) {
                0 => format!("{}::{}", base, rng.pick(&COMPONENTS)),
                1 => format!("{}::{}::{}", base, rng.pick(&COMPONENTS), rng.pick(&COMPONENTS)),
                _ => format!("{}{}", base, rng.pick(&["c", "b", "_"])), // textual extension
            }
        } else {
            gen_name(rng, max_depth)
        };
        if loggers.iter().any(|l| l.name == name) {
            continue;
        }
        loggers.push(LoggerSpec {
            name,
            level: *rng.pick(&FILTERS),
            additive: rng.chance(2, 3),
            appenders: pick_apps(rng),
        });
    }
    ConfSpec {
        appenders,
        root_level: *rng.pick(&FILTERS),
        root_appenders,
        loggers,
    }
}

/// Probe targets for a configuration: every configured name, every proper
/// prefix, extensions (component-wise and textual) and hostile strings.
pub fn probe_targets(spec: &ConfSpec, rng: &mut Rng) -> Vec<String> {
    let mut t: Vec<String> = vec![];
    for l in &spec.loggers {
        t.push(l.name.clone());
        let comps: Vec<&str> = l.name.split("::").collect();
        for k in 1..comps.len() {
            t.push(comps[..k].join("::"));
        }
        t.push(format!("{}::{}", l.name, rng.pick(&COMPONENTS)));
        t.push(format!("{}::zz::{}", l.name, rng.pick(&COMPONENTS)));
        t.push(format!("{}c", l.name));
        t.push(format!("{}:", l.name));
        t.push(format!("{}::", l.name));
        t.push(format!("{}:::{}", l.name, rng.pick(&COMPONENTS)));
        t.push(format!("{}::::{}", l.name, rng.pick(&COMPONENTS)));
        t.push(format!("::{}", l.name));
        if let Some(first) = comps.first() {
            t.push(format!("{}:b::c", first));
        }
    }
    for s in [
        "", ":", "::", "a:", "a::", "::a", "a:::b", "a::::b", "a:b::c", "a", "b", "a::b", "zz", "é",
        "a::é", "ab", "a_b", "a::b::a::b::a",
    ] {
        t.push(s.to_owned());
    }
    for _ in 0..4 {
        t.push(gen_name(rng, 5));
    }
    t.sort();
    t.dedup();
    t
}
