//! C13 — config building accepts exactly well-formed configs; lossy keeps the valid part.

use crate::par::run_cases;
use crate::report::Report;
use crate::rng::Rng;
use crate::routing::{self, Cap, ConfSpec, LoggerSpec, FILTERS, LEVELS};
use crate::trap;
use log::LevelFilter;
use log4rs::config::runtime::ConfigError;
use log4rs::config::{Appender, Config, Logger, Root};
use serde_json::{json, Value};
use std::collections::BTreeSet;

#[derive(Clone, Copy, Debug, PartialEq, Eq)]
pub enum NameClass {
    Valid,
    Invalid,
    /// colon runs of even length >= 4: "colons only in pairs" is ambiguous
    DontCare,
}

/// Reference well-formedness, from the statement: non-empty, colons only in
/// pairs, none trailing.
pub fn classify(name: &str) -> NameClass {
    if name.is_empty() {
        return NameClass::Invalid;
    }
    let chars: Vec<char> = name.chars().collect();
    if *chars.last().unwrap() == ':' {
        // a trailing colon; a trailing even run >= 4 is still "trailing"
        return NameClass::Invalid;
    }
    let mut dontcare = false;
    let mut i = 0;
    while i < chars.len() {
        if chars[i] == ':' {
            let mut j = i;
            while j < chars.len() && chars[j] == ':' {
                j += 1;
            }
            let run = j - i;
            if run % 2 == 1 {
                return NameClass::Invalid;
            }
            if run >= 4 {
                dontcare = true;
            }
            i = j;
        } else {
            i += 1;
        }
    }
    if dontcare {
        NameClass::DontCare
    } else {
        NameClass::Valid
    }
}

#[derive(Clone, Debug)]
struct InLogger {
    name: String,
    level: LevelFilter,
    additive: bool,
    refs: Vec<String>,
}

#[derive(Clone, Debug)]
struct Input {
    appenders: Vec<String>,
    root_level: LevelFilter,
    root_refs: Vec<String>,
    loggers: Vec<InLogger>,
}

impl Input {
    fn to_json(&self) -> Value {
        json!({"appenders": self.appenders, "root": {"level": self.root_level.to_string(), "refs": self.root_refs},
            "loggers": self.loggers.iter().map(|l| json!({"name": l.name, "level": l.level.to_string(),
                "additive": l.additive, "refs": l.refs})).collect::<Vec<_>>()})
    }
}

#[derive(Clone, Debug, PartialEq, Eq, PartialOrd, Ord)]
enum Err {
    DupAppender(String),
    Nonexistent(String),
    DupLogger(String),
    InvalidName(String),
    Other(String),
}

fn conv(e: &ConfigError) -> Err {
    match e {
        ConfigError::DuplicateAppenderName(n) => Err::DupAppender(n.clone()),
        ConfigError::NonexistentAppender(n) => Err::Nonexistent(n.clone()),
        ConfigError::DuplicateLoggerName(n) => Err::DupLogger(n.clone()),
        ConfigError::InvalidLoggerName(n) => Err::InvalidName(n.clone()),
        other => Err::Other(format!("{:?}", other)),
    }
}

struct Model {
    well_formed: bool,
    required: BTreeSet<Err>,
    allowed: BTreeSet<Err>,
    /// the lossy result as a routing spec; appender identity = "name#index of first occurrence"
    lossy: ConfSpec,
    kept_appender_idx: Vec<(String, usize)>,
}

fn model(inp: &Input) -> Model {
    let mut required = BTreeSet::new();
    let mut allowed = BTreeSet::new();
    let mut kept_apps: Vec<(String, usize)> = vec![];
    for (i, a) in inp.appenders.iter().enumerate() {
        if kept_apps.iter().any(|(n, _)| n == a) {
            required.insert(Err::DupAppender(a.clone()));
        } else {
            kept_apps.push((a.clone(), i));
        }
    }
    let exists = |n: &String| kept_apps.iter().any(|(k, _)| k == n);
    let mut root_refs = vec![];
    for r in &inp.root_refs {
        if exists(r) {
            root_refs.push(r.clone());
        } else {
            required.insert(Err::Nonexistent(r.clone()));
        }
    }
    let mut seen: Vec<String> = vec![];
    let mut kept_loggers = vec![];
    for l in &inp.loggers {
        let dangling: Vec<&String> = l.refs.iter().filter(|r| !exists(r)).collect();
        if seen.contains(&l.name) {
            if classify(&l.name) == NameClass::Valid {
                required.insert(Err::DupLogger(l.name.clone()));
            } else {
                // the name is already required as InvalidName by its first
                // occurrence; either kind names the item
                allowed.insert(Err::DupLogger(l.name.clone()));
                allowed.insert(Err::InvalidName(l.name.clone()));
            }
            for d in dangling {
                allowed.insert(Err::Nonexistent(d.clone()));
            }
            continue;
        }
        seen.push(l.name.clone());
        if classify(&l.name) != NameClass::Valid {
            required.insert(Err::InvalidName(l.name.clone()));
            for d in dangling {
                allowed.insert(Err::Nonexistent(d.clone()));
            }
            continue;
        }
        for d in dangling {
            required.insert(Err::Nonexistent(d.clone()));
        }
        kept_loggers.push(LoggerSpec {
            name: l.name.clone(),
            level: l.level,
            additive: l.additive,
            appenders: l.refs.iter().filter(|r| exists(r)).cloned().collect(),
        });
    }
    allowed.extend(required.iter().cloned());
    Model {
        well_formed: required.is_empty(),
        required,
        allowed,
        lossy: ConfSpec {
            appenders: kept_apps.iter().map(|(n, _)| n.clone()).collect(),
            root_level: inp.root_level,
            root_appenders: root_refs,
            loggers: kept_loggers,
        },
        kept_appender_idx: kept_apps,
    }
}

/// The builder's entry points in every mixture: items one by one, in bulk, `k` singly and the rest in bulk,
/// a bulk followed by single items, two bulks - the order of the items is the order of the calls.
fn feed<T, B>(mut b: B, items: Vec<T>, style: usize, one: impl Fn(B, T) -> B, many: impl Fn(B, Vec<T>) -> B) -> B {
    let n = items.len();
    let cut = match style % 5 {
        0 => n,         // all singly
        1 => 0,         // one bulk
        2 => 1.min(n),  // first singly, rest in bulk (the batch is longer than what is there)
        3 => n / 2,     // half singly, half in bulk
        _ => n,         // (4) bulk of the first half, then singly - handled below
    };
    let mut it = items.into_iter();
    if style % 5 == 4 {
        let first: Vec<T> = it.by_ref().take(n / 2).collect();
        b = many(b, first);
        for x in it {
            b = one(b, x);
        }
        return b;
    }
    for _ in 0..cut {
        if let Some(x) = it.next() {
            b = one(b, x);
        }
    }
    let rest: Vec<T> = it.collect();
    if style % 5 == 3 && rest.len() >= 2 {
        // two bulks
        let mut rest = rest;
        let tail = rest.split_off(rest.len() / 2);
        b = many(b, rest);
        return many(b, tail);
    }
    many(b, rest)
}

fn builder_of(inp: &Input, sink: &routing::Sink) -> (log4rs::config::runtime::ConfigBuilder, Root) {
    // the mixture is a function of the input, so that strict and lossy builds of one input use the same calls
    let style = inp.appenders.len() + 3 * inp.loggers.len() + inp.root_refs.len();
    let apps: Vec<Appender> = inp.appenders.iter().enumerate().map(|(i, a)| Appender::builder().build(
        a.clone(), Box::new(Cap { name: format!("{}#{}", a, i), sink: sink.clone() }))).collect();
    let mut b = feed(Config::builder(), apps, style, |b, a| b.appender(a), |b, v| b.appenders(v));
    let logs: Vec<Logger> = inp.loggers.iter().enumerate().map(|(k, l)| {
        let lb = feed(Logger::builder().additive(l.additive), l.refs.clone(), style + k, |b, r| b.appender(r), |b, v| b.appenders(v));
        lb.build(l.name.clone(), l.level)
    }).collect();
    b = feed(b, logs, style / 5, |b, l| b.logger(l), |b, v| b.loggers(v));
    let rb = feed(Root::builder(), inp.root_refs.clone(), style / 3, |b, r| b.appender(r), |b, v| b.appenders(v));
    (b, rb.build(inp.root_level))
}

fn view(cfg: &Config) -> Value {
    json!({
        "appenders": cfg.appenders().iter().map(|a| a.name().to_owned()).collect::<Vec<_>>(),
        "root": {"level": cfg.root().level().to_string(), "appenders": cfg.root().appenders()},
        "loggers": cfg.loggers().iter().map(|l| json!({"name": l.name(), "level": l.level().to_string(),
            "additive": l.additive(), "appenders": l.appenders()})).collect::<Vec<_>>(),
    })
}

fn spec_view(s: &ConfSpec) -> Value {
    json!({
        "appenders": s.appenders,
        "root": {"level": s.root_level.to_string(), "appenders": s.root_appenders},
        "loggers": s.loggers.iter().map(|l| json!({"name": l.name, "level": l.level.to_string(),
            "additive": l.additive, "appenders": l.appenders})).collect::<Vec<_>>(),
    })
}

/// Installs `cfg` in a private Logger and logs through it; compares with R.
fn drive(rep: &mut Report, cfg: Config, m: &Model, sink: &routing::Sink, inp: &Input, rng: &mut Rng, how: &str) {
    let logger = match trap::catch(|| log4rs::Logger::new(cfg)) {
        Ok(l) => l,
        Err(p) => {
            rep.violation(&format!("C13:panic:Logger::new:{}", p.site()),
                json!({"input": inp.to_json(), "path": how, "panic": p.message}));
            return;
        }
    };
    // expectations use the identity "name#firstindex"
    let ident = |n: &String| -> String {
        let idx = m.kept_appender_idx.iter().find(|(k, _)| k == n).map(|(_, i)| *i).unwrap_or(usize::MAX);
        format!("{}#{}", n, idx)
    };
    let mut targets = routing::probe_targets(&m.lossy, rng);
    targets.truncate(40);
    let mut id = 0;
    for t in &targets {
        for lvl in LEVELS {
            id += 1;
            let mut want: Vec<String> = m.lossy.expected(t, lvl).iter().map(ident).collect();
            want.sort();
            match trap::catch(|| routing::deliver(&logger, sink, t, lvl, id)) {
                Ok(got) => {
                    rep.count("log_calls_through_built_configs", 1);
                    if got != want {
                        rep.violation("C13:built-config-misroutes",
                            json!({"input": inp.to_json(), "path": how, "target": t, "level": lvl.to_string(),
                                   "expected": want, "got": got}));
                    }
                }
                Err(p) => {
                    rep.violation(&format!("C13:panic:log:{}", p.site()),
                        json!({"input": inp.to_json(), "path": how, "target": t, "panic": p.message}));
                }
            }
        }
    }
}

fn check_input(rep: &mut Report, inp: &Input, rng: &mut Rng, dontcare: bool) {
    let m = model(inp);
    // ---- strict
    let sink = routing::new_sink();
    let (b, root) = builder_of(inp, &sink);
    let strict = match trap::catch(move || b.build(root)) {
        Ok(r) => r,
        Err(p) => {
            rep.violation(&format!("C13:panic:build:{}", p.site()), json!({"input": inp.to_json(), "panic": p.message}));
            return;
        }
    };
    if dontcare {
        // only totality is judged
        if let Ok(cfg) = strict {
            let _ = trap::catch(|| log4rs::Logger::new(cfg)).map_err(|p| {
                rep.violation(&format!("C13:panic:Logger::new:{}", p.site()), json!({"input": inp.to_json(), "panic": p.message}))
            });
        }
        return;
    }
    match strict {
        Ok(cfg) => {
            rep.count("strict_ok", 1);
            if !m.well_formed {
                rep.violation("C13:strict-accepts-ill-formed",
                    json!({"input": inp.to_json(), "offending": format!("{:?}", m.required)}));
            } else if view(&cfg) != spec_view(&m.lossy) {
                rep.violation("C13:strict-config-differs",
                    json!({"input": inp.to_json(), "expected": spec_view(&m.lossy), "got": view(&cfg)}));
            }
            drive(rep, cfg, &m, &sink, inp, rng, "build");
        }
        Err(errs) => {
            rep.count("strict_err", 1);
            let named: BTreeSet<Err> = errs.errors().iter().map(conv).collect();
            if m.well_formed {
                rep.violation("C13:strict-rejects-well-formed",
                    json!({"input": inp.to_json(), "errors": format!("{:?}", named)}));
            } else {
                let missing: Vec<&Err> = m.required.difference(&named).collect();
                let innocent: Vec<&Err> = named.difference(&m.allowed).collect();
                if !missing.is_empty() {
                    rep.violation("C13:offending-item-not-named",
                        json!({"input": inp.to_json(), "not_named": format!("{:?}", missing), "errors": format!("{:?}", named)}));
                }
                if !innocent.is_empty() {
                    rep.violation("C13:innocent-item-named",
                        json!({"input": inp.to_json(), "innocent": format!("{:?}", innocent), "errors": format!("{:?}", named)}));
                }
            }
        }
    }
    // ---- lossy
    let sink = routing::new_sink();
    let (b, root) = builder_of(inp, &sink);
    match trap::catch(move || b.build_lossy(root)) {
        Err(p) => rep.violation(&format!("C13:panic:build_lossy:{}", p.site()), json!({"input": inp.to_json(), "panic": p.message})),
        Ok((cfg, errs)) => {
            rep.count("lossy_built", 1);
            let named: BTreeSet<Err> = errs.errors().iter().map(conv).collect();
            let missing: Vec<&Err> = m.required.difference(&named).collect();
            let innocent: Vec<&Err> = named.difference(&m.allowed).collect();
            if !missing.is_empty() || !innocent.is_empty() {
                rep.violation("C13:lossy-error-report",
                    json!({"input": inp.to_json(), "not_named": format!("{:?}", missing), "innocent": format!("{:?}", innocent)}));
            }
            if view(&cfg) != spec_view(&m.lossy) {
                rep.violation("C13:lossy-config-differs",
                    json!({"input": inp.to_json(), "expected": spec_view(&m.lossy), "got": view(&cfg)}));
            }
            drive(rep, cfg, &m, &sink, inp, rng, "build_lossy");
        }
    }
}

fn all_names(max_len: usize) -> Vec<String> {
    let mut v = all_names_over(['a', 'b', ':'], max_len);
    // the same with multi-byte letters (character positions and byte offsets differ)
    v.extend(all_names_over(['é', '日', ':'], max_len.min(5)).into_iter().filter(|s| !s.is_empty() && s.chars().any(|c| c != ':')));
    v
}

fn all_names_over(alphabet: [char; 3], max_len: usize) -> Vec<String> {
    let mut out = vec![String::new()];
    let mut frontier = vec![String::new()];
    for _ in 0..max_len {
        let mut next = vec![];
        for s in &frontier {
            for c in alphabet {
                let mut t = s.clone();
                t.push(c);
                next.push(t);
            }
        }
        out.extend(next.iter().cloned());
        frontier = next;
    }
    out
}

fn gen_input(rng: &mut Rng, names: &[String]) -> Input {
    let pool = ["A", "B", "C", "D", "é"];
    // now and then dozens of appenders (many duplicates of few names, or mostly distinct names with a few repeats)
    let many = rng.chance(1, 12);
    let n_app = if many { 18 + rng.usize_below(30) } else { rng.usize_below(6) };
    let distinct_names = many && rng.chance(1, 2);
    let appenders: Vec<String> = (0..n_app).map(|i| {
        if distinct_names && !rng.chance(1, 6) { format!("N{}", i) } else { (*rng.pick(&pool[..4.min(pool.len())])).to_owned() }
    }).collect();
    let gen_refs = |rng: &mut Rng| -> Vec<String> {
        let k = rng.usize_below(4);
        (0..k).map(|_| (*rng.pick(&pool)).to_owned()).collect()
    };
    let root_refs = gen_refs(rng);
    let n_log = rng.usize_below(6);
    let mut loggers: Vec<InLogger> = vec![];
    for _ in 0..n_log {
        let name = if !loggers.is_empty() && rng.chance(1, 4) {
            rng.pick(&loggers).name.clone() // duplicate
        } else if rng.chance(1, 4) {
            // ill-formed or borderline names from the exhaustive pool (never don't-care ones)
            loop {
                let n = rng.pick(names).clone();
                if classify(&n) != NameClass::DontCare {
                    break n;
                }
            }
        } else {
            routing::gen_name(rng, 4)
        };
        loggers.push(InLogger {
            name,
            level: *rng.pick(&FILTERS),
            additive: rng.chance(2, 3),
            refs: gen_refs(rng),
        });
    }
    Input {
        appenders,
        root_level: *rng.pick(&FILTERS),
        root_refs,
        loggers,
    }
}

pub fn run(rep: &mut Report) {
    rep.rule = "logger names exhaustively over {a,b,:} up to length 6 (1093 names) and over {é,日,:} up to length 5 built singly (strict + lossy), names with colon runs of 3..65538 (around 16, 128, 256, 512, 1024, 65536) in the middle, at the end and at the start, plus random \
        builder inputs (0-5 appenders with duplicates, 0-5 loggers with duplicate / ill-formed names, dangling references in \
        root, kept and rejected loggers); every returned Config is installed and probed against the routing model; \
        non-trivial = input has at least one defect or at least one logger; distinct = distinct builder input".to_owned();
    rep.assume("names whose colon runs have even length >= 4 are don't-care (only totality is checked)");
    rep.assume("dangling references inside rejected loggers may or may not be reported");
    let names = all_names(6);
    rep.set_extra("names_enumerated", json!(names.len()));
    let names_ref = &names;
    run_cases(rep, "name", names.len() as u64, |rep, rng, idx| {
        let name = &names_ref[idx as usize];
        let class = classify(name);
        rep.count(match class { NameClass::Valid => "names_valid", NameClass::Invalid => "names_invalid", NameClass::DontCare => "names_dontcare" }, 1);
        let inp = Input {
            appenders: vec!["A".into()],
            root_level: LevelFilter::Info,
            root_refs: vec!["A".into()],
            loggers: vec![InLogger { name: name.clone(), level: LevelFilter::Debug, additive: true, refs: vec!["A".into()] }],
        };
        rep.case(&format!("name|{}", name), true);
        check_input(rep, &inp, rng, class == NameClass::DontCare);
        if idx == 40 || idx == 300 {
            rep.sample(json!({"logger_name": name, "reference_class": format!("{:?}", class)}));
        }
    });
    // colon runs around the widths of small counters
    let mut long_names: Vec<String> = vec![];
    for k in [3usize, 7, 15, 16, 17, 127, 128, 129, 254, 255, 256, 257, 258, 259, 511, 512, 513, 514, 1023, 1025, 65535, 65536, 65537, 65538] {
        let run = ":".repeat(k);
        long_names.push(format!("a{}b", run));
        long_names.push(format!("a{}", run));
        long_names.push(format!("{}b", run));
        long_names.push(format!("a::b{}c::d", run));
    }
    let long_ref = &long_names;
    run_cases(rep, "long-colon-run", long_names.len() as u64, |rep, rng, idx| {
        let name = &long_ref[idx as usize];
        let class = classify(name);
        rep.count("names_with_long_colon_runs", 1);
        let inp = Input {
            appenders: vec!["A".into()],
            root_level: LevelFilter::Info,
            root_refs: vec!["A".into()],
            loggers: vec![InLogger { name: name.clone(), level: LevelFilter::Debug, additive: true, refs: vec!["A".into()] }],
        };
        rep.case(&format!("long|{}|{}", name.len(), idx), true);
        check_input(rep, &inp, rng, class == NameClass::DontCare);
    });
    let n = if rep.tier == "thorough" { 300_000 } else { 30_000 };
    run_cases(rep, "input", n, |rep, rng, idx| {
        let inp = gen_input(rng, names_ref);
        let m = model(&inp);
        rep.case(&inp.to_json().to_string(), !m.well_formed || !inp.loggers.is_empty());
        if !m.well_formed {
            rep.count("inputs_with_defects", 1);
        }
        check_input(rep, &inp, rng, false);
        if idx < 2 {
            rep.sample(json!({"input": inp.to_json(), "reference_well_formed": m.well_formed,
                "reference_required_errors": format!("{:?}", m.required)}));
        }
    });
    rep.exhaustive = Some(false);
    rep.require(rep.counter("strict_ok") > 100 && rep.counter("strict_err") > 100, "strict build was not observed both succeeding and failing often enough");
    rep.require(rep.counter("log_calls_through_built_configs") > 10_000, "too few log calls through built configs");
}
