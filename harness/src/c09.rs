//! C09 — pattern encoder output equals the pattern's meaning for well-formed patterns.

use crate::par::run_cases;
use crate::pattern_model::*;
use crate::report::Report;
use crate::rng::Rng;
use crate::trap;
use chrono::{Local, Utc};
use log4rs::encode::pattern::PatternEncoder;
use log4rs::encode::Encode;
use serde_json::json;

pub fn set_test_zone() {
    // a non-UTC zone so that (utc) and (local) dates are distinguishable; POSIX form needs no tzdata
    std::env::set_var("TZ", "IST-5:30");
}

fn has_special(s: &str) -> bool {
    s.chars().any(|c| SPECIALS.contains(&c))
}

pub fn pattern_tags(pattern: &str, nodes: &[Node]) -> Vec<&'static str> {
    let mut t = vec![];
    tags(nodes, &mut t);
    if pattern.contains("{thread_id") {
        t.push("alias-thread_id");
    }
    t
}

fn tags(nodes: &[Node], out: &mut Vec<&'static str>) {
    for n in nodes {
        if let Node::Fmt(k, _) = n {
            match k {
                Kind::Mdc { key, default } => {
                    if has_special(key) || default.as_deref().map(has_special).unwrap_or(false) {
                        out.push("mdc-arg-with-escape");
                    }
                }
                Kind::Group(c) | Kind::Highlight(c) | Kind::Debug(c) | Kind::Release(c) => tags(c, out),
                _ => {}
            }
        }
    }
}

pub struct CaseOut {
    pub pattern: String,
    pub mismatch: Option<(String, serde_json::Value)>,
    pub nontrivial: bool,
    pub style_events: usize,
    pub short_writes: bool,
}

/// One (pattern, record) evaluation on the current thread.
pub fn one_case(rng: &mut Rng, o: &GenOpts, prop: &str) -> CaseOut {
    let mut hole = 1;
    let nodes = gen_nodes(rng, o, 0, &mut hole, false);
    let pattern = print(&nodes, rng, false);
    let ctx = gen_ctx(rng, &o.mdc_keys);
    log_mdc::clear();
    for (k, v) in &ctx.mdc {
        log_mdc::insert(k.clone(), v.clone());
    }
    let pieces = if LITERALS.contains(&ctx.message.as_str()) { vec![ctx.message.clone()] } else { split_pieces(&ctx.message, rng) };
    let short = rng.chance(1, 2);
    let mut out = CaseOut {
        pattern: pattern.clone(),
        mismatch: None,
        nontrivial: nodes.iter().any(|n| matches!(n, Node::Fmt(..))),
        style_events: 0,
        short_writes: short,
    };
    let enc = match trap::catch(|| PatternEncoder::new(&pattern)) {
        Ok(e) => e,
        Err(p) => {
            out.mismatch = Some((format!("{}:panic:new:{}", prop, p.site()), json!({"pattern": pattern, "panic": p.message})));
            return out;
        }
    };
    if rng.chance(1, 6) {
        // a record whose write fails half-way must not leak into what the same thread encodes next
        let mut failing = CapW::new();
        failing.budget = Some(rng.usize_below(30));
        let mut other = ctx.clone();
        other.message = "THIS-FAILED-RECORD-MUST-NOT-SHOW-UP".into();
        let p2 = vec![other.message.clone()];
        let _ = trap::catch(|| with_record(&other, &p2, |rec| enc.encode(&mut failing, rec)));
    }
    if rng.chance(1, 8) {
        // ... nor may a record whose message panics while being formatted
        encode_a_record_that_panics(&enc, &ctx);
    }
    // now and then formatting the message itself encodes another record through the same encoder
    let nesting = rng.chance(1, 10);
    let mut inner_ctx = ctx.clone();
    inner_ctx.message = "inner message é".into();
    inner_ctx.level = log::Level::Error;
    inner_ctx.target = "inner::t".into();
    for attempt in 0..3 {
        let mut w = if short { CapW::short(rng.next_u64()) } else { CapW::new() };
        w.interrupts = short && attempt == 1;
        let t0 = Utc::now();
        let nest = NestingMsg { enc: &enc, inner: &inner_ctx, text: &ctx.message, inner_out: Default::default() };
        let r = if nesting {
            trap::catch(|| with_record_display(&ctx, &nest, |rec| enc.encode(&mut w, rec)))
        } else {
            trap::catch(|| with_record(&ctx, &pieces, |rec| enc.encode(&mut w, rec)))
        };
        let t1 = Utc::now();
        if nesting && matches!(r, Ok(Ok(()))) {
            // the message is formatted wherever the pattern uses {m}: the nested record, if there was one, is whole
            if let Some(inner) = nest.inner_out.borrow().clone() {
                let want_inner = text_of(&render(&nodes, &inner_ctx, &t0.with_timezone(&Local), &t0));
                let bad = match &inner {
                    Err(e) => Some(format!("nested encode returned an error: {}", e)),
                    Ok(b) => match String::from_utf8(b.clone()) {
                        Err(_) => Some("nested output is not valid UTF-8".to_owned()),
                        Ok(s) if !has_date(&nodes) && s != want_inner => Some(format!("nested record rendered as {:?}, expected {:?}", s, want_inner)),
                        _ => None,
                    },
                };
                if let Some(what) = bad {
                    out.mismatch = Some((format!("{}:record-encoded-while-another-is-being-encoded", prop),
                        json!({"pattern": pattern, "outer_record": format!("{:?}", ctx), "nested_record": format!("{:?}", inner_ctx), "what": what})));
                    return out;
                }
            }
        }
        let detail = |what: &str, exp: &str, got: &str| {
            json!({"pattern": pattern, "record": format!("{:?}", ctx), "what": what,
                   "expected_text": exp, "got_text": got, "short_writes": short})
        };
        match r {
            Err(p) => {
                out.mismatch = Some((format!("{}:panic:encode:{}", prop, if p.in_repo() { p.site() } else { "formatting".into() }),
                    detail(&p.message, "", "")));
                return out;
            }
            Ok(Err(e)) => {
                out.mismatch = Some((format!("{}:encode-returned-error", prop), detail(&e.to_string(), "", "")));
                return out;
            }
            Ok(Ok(())) => {}
        }
        let got = match w.events() {
            Ok(g) => g,
            Err(_) => {
                out.mismatch = Some((format!("{}:invalid-utf8", prop),
                    detail("output is not valid UTF-8", "", &String::from_utf8_lossy(&w.bytes))));
                return out;
            }
        };
        out.style_events = w.styles.len();
        let e0 = render(&nodes, &ctx, &t0.with_timezone(&Local), &t0);
        let e1 = render(&nodes, &ctx, &t1.with_timezone(&Local), &t1);
        let m0 = compare(&e0, &got, &t0, &t1);
        if m0.is_none() {
            return out;
        }
        if compare(&e1, &got, &t0, &t1).is_none() {
            return out;
        }
        if text_of(&e0) != text_of(&e1) && attempt < 2 {
            continue; // a clock boundary passed during the call: re-draw
        }
        let tg = pattern_tags(&pattern, &nodes);
        let sig = if tg.contains(&"alias-thread_id") {
            format!("{}:render-mismatch:alias-thread_id", prop)
        } else if tg.contains(&"mdc-arg-with-escape") {
            format!("{}:render-mismatch:mdc-arg-with-escape", prop)
        } else if text_of(&e0) != text_of(&got) && !has_hole(&e0) {
            format!("{}:render-mismatch", prop)
        } else if has_hole(&e0) {
            format!("{}:render-mismatch:default-date", prop)
        } else {
            format!("{}:style-events-mismatch", prop)
        };
        let mut d = detail(&m0.unwrap(), &text_of(&e0), &text_of(&got));
        d["expected_events"] = json!(format!("{:?}", e0.iter().filter(|e| matches!(e, Ev::Style(_))).collect::<Vec<_>>()));
        d["got_styles"] = json!(format!("{:?}", w.styles));
        out.mismatch = Some((sig, d));
        return out;
    }
    out
}

/// Child: the zone's offset changes while the process runs (a DST transition, or TZ re-read by chrono after
/// a second); a thread that already formatted a local date must use the new offset afterwards.
pub fn child_zone(_args: &[String]) -> i32 {
    use log4rs::encode::writer::simple::SimpleWriter;
    let enc = PatternEncoder::new("{d(%z)(local)}|{d(%z)(utc)}|{d(%z)}");
    let one = |enc: &PatternEncoder| -> String {
        let mut buf = vec![];
        let _ = enc.encode(&mut SimpleWriter(&mut buf), &log::Record::builder().build());
        String::from_utf8_lossy(&buf).into_owned()
    };
    std::env::set_var("TZ", "UTC");
    let a = one(&enc);
    std::env::set_var("TZ", "JST-9");
    std::thread::sleep(std::time::Duration::from_millis(1300));
    let b = one(&enc);
    let c = std::thread::scope(|s| s.spawn(|| one(&enc)).join().unwrap_or_default());
    std::env::set_var("TZ", "XXX+3:30");
    std::thread::sleep(std::time::Duration::from_millis(1300));
    let d = one(&enc);
    // the offset changes while TZ stays the same: a daylight-saving rule whose summer time begins in three seconds
    use chrono::{Datelike, Timelike};
    let start = Utc::now() + chrono::Duration::seconds(3);
    let (mut before_dst, mut after_dst) = (String::from("skipped"), String::from("skipped"));
    if start.ordinal0() < 360 {
        let rule = format!("AAA0BBB-1,{}/{:02}:{:02}:{:02},{}/{:02}:{:02}:{:02}", start.ordinal0(), start.hour(), start.minute(), start.second(),
            start.ordinal0() + 2, start.hour(), start.minute(), start.second());
        std::env::set_var("TZ", &rule);
        std::thread::sleep(std::time::Duration::from_millis(1200)); // (chrono looks at TZ again after a second)
        let enc2 = PatternEncoder::new("{d(%z)}|{d(%z)(local)}");
        before_dst = one(&enc2);
        if Utc::now() > start - chrono::Duration::milliseconds(300) {
            // a loaded machine: the "before" reading came too late to be judged
            before_dst = "skipped".into();
        } else {
            let wait = (start + chrono::Duration::milliseconds(1300)) - Utc::now();
            std::thread::sleep(wait.to_std().unwrap_or_default());
            after_dst = one(&enc2);
        }
    }
    println!("RESULT {}", json!({"first": a, "same_thread_after_change": b, "fresh_thread_after_change": c, "after_second_change": d,
        "before_dst_starts_tz_unchanged": before_dst, "after_dst_started_tz_unchanged": after_dst}));
    0
}

/// Child: render `{P}`, fork, render it again in the forked process (a daemonising or pre-forking program).
pub fn child_fork(_args: &[String]) -> i32 {
    use log4rs::encode::writer::simple::SimpleWriter;
    let enc = PatternEncoder::new("{P}|{pid}");
    let one = |enc: &PatternEncoder| -> String {
        let mut buf = vec![];
        let _ = enc.encode(&mut SimpleWriter(&mut buf), &log::Record::builder().build());
        String::from_utf8_lossy(&buf).into_owned()
    };
    let before = one(&enc);
    let mut fds = [0 as libc::c_int; 2];
    let (child_pid, in_child) = unsafe {
        if libc::pipe(fds.as_mut_ptr()) != 0 {
            return 4;
        }
        let pid = libc::fork();
        if pid < 0 {
            return 5;
        }
        if pid == 0 {
            let s = one(&enc);
            libc::write(fds[1], s.as_ptr() as *const libc::c_void, s.len());
            libc::_exit(0);
        }
        libc::close(fds[1]);
        let mut buf = [0u8; 256];
        let mut out = vec![];
        loop {
            let n = libc::read(fds[0], buf.as_mut_ptr() as *mut libc::c_void, buf.len());
            if n <= 0 {
                break;
            }
            out.extend_from_slice(&buf[..n as usize]);
        }
        let mut st = 0;
        libc::waitpid(pid, &mut st, 0);
        (pid, String::from_utf8_lossy(&out).into_owned())
    };
    println!("RESULT {}", json!({"parent_pid": std::process::id(), "before_fork": before, "child_pid": child_pid, "in_child_after_fork": in_child}));
    0
}

fn fork_case(rep: &mut Report) {
    if rep.only.is_some() {
        return;
    }
    match crate::childproc::run_child(&["c09fork".to_owned()], &[], std::time::Duration::from_secs(60)) {
        Err(e) => rep.inconclusive(&format!("cannot spawn fork child: {}", e)),
        Ok(o) if o.timed_out => rep.inconclusive("fork child timed out"),
        Ok(o) => {
            let text = String::from_utf8_lossy(&o.stdout);
            let Some(line) = text.lines().rev().find(|l| l.starts_with("RESULT ")) else {
                rep.inconclusive("fork child produced no result");
                return;
            };
            let v: serde_json::Value = serde_json::from_str(&line[7..]).unwrap_or_default();
            rep.case_enumerated(true);
            rep.count("fork_scenarios", 1);
            let (pp, cp) = (v["parent_pid"].as_i64().unwrap_or(-1), v["child_pid"].as_i64().unwrap_or(-2));
            if v["before_fork"] != json!(format!("{}|{}", pp, pp)) || v["in_child_after_fork"] != json!(format!("{}|{}", cp, cp)) {
                rep.violation("C09:process-id-after-fork", json!({"pattern": "{P}|{pid}",
                    "history": "encode in a process, fork(), encode again in the forked process", "observed": v}));
            }
        }
    }
}

fn zone_change(rep: &mut Report) {
    if rep.only.is_some() {
        return;
    }
    match crate::childproc::run_child(&["c09zone".to_owned()], &[], std::time::Duration::from_secs(60)) {
        Err(e) => rep.inconclusive(&format!("cannot spawn zone child: {}", e)),
        Ok(o) if o.timed_out => rep.inconclusive("zone child timed out"),
        Ok(o) => {
            let text = String::from_utf8_lossy(&o.stdout);
            let Some(line) = text.lines().rev().find(|l| l.starts_with("RESULT ")) else {
                rep.inconclusive("zone child produced no result");
                return;
            };
            let v: serde_json::Value = serde_json::from_str(&line[7..]).unwrap_or_default();
            rep.case_enumerated(true);
            rep.count("zone_change_scenarios", 1);
            let skipped = v["before_dst_starts_tz_unchanged"] == json!("skipped");
            let want = json!({"first": "+0000|+0000|+0000", "same_thread_after_change": "+0900|+0000|+0900",
                "fresh_thread_after_change": "+0900|+0000|+0900", "after_second_change": "-0330|+0000|-0330",
                "before_dst_starts_tz_unchanged": if skipped { "skipped" } else { "+0000|+0000" },
                "after_dst_started_tz_unchanged": if skipped { "skipped" } else { "+0100|+0100" }});
            if v != want {
                rep.violation("C09:local-date-after-offset-change", json!({"pattern": "{d(%z)(local)}|{d(%z)(utc)}|{d(%z)}",
                    "history": "TZ=UTC, encode; TZ=JST-9, 1.3 s later encode on the same and on a fresh thread; TZ=XXX+3:30, encode; TZ=<rule whose summer time starts in 3 s>, encode before and after the start",
                    "expected": want, "got": v}));
            }
        }
    }
}

pub fn run(rep: &mut Report) {
    set_test_zone();
    rep.rule = "patterns generated from an AST (all 17 formatters with both aliases, literal text over ASCII + 2/3/4-byte \
        code points + every special character in doubled and backslash-escaped form, nesting depth <=4, width specs, \
        date formats incl. escapes and utc/local, MDC key/default arguments with escapes) printed with random alias and \
        escape choices, encoded for random records (Unicode fields, optional fields absent, MDC entries, named and unnamed \
        threads, message Display emitting several pieces, sink with random short writes); expected text and style events \
        from an independent renderer; non-trivial = pattern has at least one formatter; distinct = (pattern, record)".to_owned();
    rep.assume("chrono's own strftime rendering is trusted for the expected text of {d(..)}; the default {d} is parsed back and bracketed by the call");
    rep.assume("`))` inside an argument and an empty `{x:}` spec followed by '<' or '>' are grammar ambiguities and are not generated");
    rep.assume("TZ=IST-5:30 is set by the check so that utc and local differ");
    rep.set_extra("profile", json!(if cfg!(debug_assertions) { "dev (debug_assertions on): {D(..)} renders, {R(..)} does not" } else { "release: {R(..)} renders, {D(..)} does not" }));
    let n = if rep.tier == "thorough" { 1_500_000 } else { 100_000 };
    run_cases(rep, "pattern", n, |rep, rng, idx| {
        let keys: Vec<String> = vec!["user".into(), "k é".into(), "a(b".into()];
        let o = GenOpts { max_depth: 4, allow_default_date: true, allow_profile_groups: true, spec_prob: (1, 3), mdc_keys: keys };
        let named = idx % 8 == 3;
        let out = if named {
            let mut r2 = rng.clone();
            let o2 = &o;
            let res = std::thread::scope(|s| {
                std::thread::Builder::new()
                    .name(format!("wörker-{}", idx % 5))
                    .spawn_scoped(s, move || one_case(&mut r2, o2, "C09"))
                    .unwrap()
                    .join()
            });
            match res {
                Ok(o) => o,
                Err(_) => {
                    rep.inconclusive("named worker thread panicked outside the trap");
                    return;
                }
            }
        } else {
            one_case(rng, &o, "C09")
        };
        rep.case(&format!("{}|{}", out.pattern, idx), out.nontrivial);
        rep.count("style_events_observed", out.style_events as i64);
        if named {
            rep.count("cases_on_named_threads", 1);
        }
        if out.short_writes {
            rep.count("cases_with_short_write_sink", 1);
        }
        if let Some((sig, detail)) = out.mismatch {
            rep.violation(&sig, detail);
        }
        if idx < 3 {
            rep.sample(json!({"pattern": out.pattern}));
        }
    });
    if std::env::var("L4V_SUBRUN").is_err() {
        zone_change(rep);
    }
    fork_case(rep);
    rep.require(rep.counter("style_events_observed") > 100, "fewer than 100 style events observed");
    rep.require(rep.counter("cases_on_named_threads") > 10, "no cases on named threads");
}
