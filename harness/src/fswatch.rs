//! A filesystem-event monitor (Linux inotify through libc): every create / delete / modify /
//! rename / attribute change below a directory, including ones that a later snapshot can no
//! longer see because the file was removed again.

use std::collections::HashMap;
use std::ffi::CString;
use std::path::{Path, PathBuf};

pub const CREATE: u32 = libc::IN_CREATE;
pub const DELETE: u32 = libc::IN_DELETE;
pub const MODIFY: u32 = libc::IN_MODIFY;
pub const MOVED_FROM: u32 = libc::IN_MOVED_FROM;
pub const MOVED_TO: u32 = libc::IN_MOVED_TO;
pub const ATTRIB: u32 = libc::IN_ATTRIB;
const MASK: u32 = CREATE | DELETE | MODIFY | MOVED_FROM | MOVED_TO | ATTRIB;

#[derive(Debug, Clone)]
pub struct Event {
    /// path relative to the watched root
    pub path: String,
    pub mask: u32,
    pub is_dir: bool,
}

impl Event {
    pub fn kind(&self) -> &'static str {
        if self.mask & CREATE != 0 {
            "created"
        } else if self.mask & DELETE != 0 {
            "deleted"
        } else if self.mask & MODIFY != 0 {
            "modified"
        } else if self.mask & MOVED_FROM != 0 {
            "renamed-away"
        } else if self.mask & MOVED_TO != 0 {
            "renamed-to"
        } else {
            "attributes-changed"
        }
    }
}

pub struct Watch {
    fd: i32,
    root: PathBuf,
    dirs: HashMap<i32, String>,
    /// set when the kernel queue overflowed: the event log has a hole
    pub overflowed: bool,
}

impl Watch {
    pub fn new(root: &Path) -> Option<Watch> {
        let fd = unsafe { libc::inotify_init1(libc::IN_NONBLOCK | libc::IN_CLOEXEC) };
        if fd < 0 {
            return None;
        }
        let mut w = Watch { fd, root: root.to_path_buf(), dirs: HashMap::new(), overflowed: false };
        w.add_tree("");
        Some(w)
    }

    fn add_tree(&mut self, rel: &str) -> Vec<Event> {
        let mut found = vec![];
        let abs = if rel.is_empty() { self.root.clone() } else { self.root.join(rel) };
        let c = match CString::new(abs.to_str().unwrap_or("")) {
            Ok(c) => c,
            Err(_) => return found,
        };
        let wd = unsafe { libc::inotify_add_watch(self.fd, c.as_ptr(), MASK | libc::IN_ONLYDIR | libc::IN_DONT_FOLLOW) };
        if wd < 0 {
            return found;
        }
        self.dirs.insert(wd, rel.to_owned());
        if let Ok(rd) = std::fs::read_dir(&abs) {
            for e in rd.flatten() {
                let name = e.file_name().to_string_lossy().into_owned();
                let child = if rel.is_empty() { name } else { format!("{}/{}", rel, name) };
                let is_dir = std::fs::symlink_metadata(e.path()).map(|m| m.is_dir()).unwrap_or(false);
                // whatever is already inside a directory that appeared since the last drain was created unseen
                found.push(Event { path: child.clone(), mask: CREATE, is_dir });
                if is_dir {
                    found.extend(self.add_tree(&child));
                }
            }
        }
        found
    }

    /// Everything that happened since the previous call.
    pub fn drain(&mut self) -> Vec<Event> {
        let mut out = vec![];
        let mut buf = vec![0u8; 64 * 1024];
        loop {
            let n = unsafe { libc::read(self.fd, buf.as_mut_ptr() as *mut libc::c_void, buf.len()) };
            if n <= 0 {
                break;
            }
            let n = n as usize;
            let mut off = 0usize;
            let hdr = std::mem::size_of::<libc::inotify_event>();
            while off + hdr <= n {
                let wd = i32::from_ne_bytes(buf[off..off + 4].try_into().unwrap());
                let mask = u32::from_ne_bytes(buf[off + 4..off + 8].try_into().unwrap());
                let len = u32::from_ne_bytes(buf[off + 12..off + 16].try_into().unwrap()) as usize;
                let name_bytes = &buf[off + hdr..(off + hdr + len).min(n)];
                let name = String::from_utf8_lossy(name_bytes.split(|b| *b == 0).next().unwrap_or(&[])).into_owned();
                off += hdr + len;
                if mask & libc::IN_Q_OVERFLOW != 0 {
                    self.overflowed = true;
                    continue;
                }
                if mask & libc::IN_IGNORED != 0 {
                    self.dirs.remove(&wd);
                    continue;
                }
                let dir = match self.dirs.get(&wd) {
                    Some(d) => d.clone(),
                    None => continue,
                };
                if name.is_empty() {
                    continue;
                }
                let path = if dir.is_empty() { name } else { format!("{}/{}", dir, name) };
                let is_dir = mask & libc::IN_ISDIR != 0;
                out.push(Event { path: path.clone(), mask: mask & MASK, is_dir });
                if is_dir && mask & (CREATE | MOVED_TO) != 0 {
                    let inside = self.add_tree(&path);
                    out.extend(inside.into_iter().filter(|e| !e.path.is_empty()));
                }
            }
        }
        out
    }
}

impl Drop for Watch {
    fn drop(&mut self) {
        unsafe {
            libc::close(self.fd);
        }
    }
}
