//! Verdicts, evidence, replay files, known findings.

use serde_json::{json, Map, Value};
use std::collections::{BTreeMap, HashSet};
use std::hash::{Hash, Hasher};
use std::path::PathBuf;
use std::time::Instant;

pub fn verif_root() -> PathBuf {
    if let Ok(p) = std::env::var("L4V_ROOT") {
        return PathBuf::from(p);
    }
    let mut p = PathBuf::from(env!("CARGO_MANIFEST_DIR"));
    p.pop();
    p
}

pub fn hash_str(s: &str) -> u64 {
    let mut h = std::collections::hash_map::DefaultHasher::new();
    s.hash(&mut h);
    h.finish()
}

#[derive(Clone, Debug)]
pub struct Violation {
    /// Stable identifier of *what* failed (used for known findings).
    pub signature: String,
    /// Everything needed to understand and replay the case.
    pub detail: Value,
}

#[derive(Debug)]
pub struct Report {
    pub prop: String,
    pub tier: String,
    pub seed: u64,
    pub level: String,
    pub evaluations: u64,
    pub distinct: HashSet<u64>,
    /// cases that are distinct by construction (enumerations), counted without hashing
    pub distinct_enumerated: u64,
    pub rule: String,
    pub samples: Vec<Value>,
    pub max_samples: usize,
    pub counters: BTreeMap<String, i64>,
    pub sets: BTreeMap<String, HashSet<u64>>,
    pub extra: BTreeMap<String, Value>,
    pub assumptions: Vec<String>,
    pub violations: Vec<Violation>,
    pub violation_counts: BTreeMap<String, u64>,
    pub inconclusive: Vec<String>,
    pub exhaustive: Option<bool>,
    pub started: Instant,
    /// replay mode: run only this (label, case index)
    pub only: Option<(String, u64)>,
    /// the case currently executing (attached to violations for replay)
    pub cur_case: Option<(String, u64)>,
}

impl Report {
    pub fn new(prop: &str, tier: &str, seed: u64, level: &str) -> Report {
        Report {
            prop: prop.to_owned(),
            tier: tier.to_owned(),
            seed,
            level: level.to_owned(),
            evaluations: 0,
            distinct: HashSet::new(),
            distinct_enumerated: 0,
            rule: String::new(),
            samples: vec![],
            max_samples: 6,
            counters: BTreeMap::new(),
            sets: BTreeMap::new(),
            extra: BTreeMap::new(),
            assumptions: vec![],
            violations: vec![],
            violation_counts: BTreeMap::new(),
            inconclusive: vec![],
            exhaustive: None,
            started: Instant::now(),
            only: None,
            cur_case: None,
        }
    }

    /// A fresh report with the same identity, for a worker shard.
    pub fn shard(&self) -> Report {
        let mut r = Report::new(&self.prop, &self.tier, self.seed, &self.level);
        r.max_samples = self.max_samples;
        r.only = self.only.clone();
        r
    }

    pub fn merge(&mut self, other: Report) {
        self.evaluations += other.evaluations;
        self.distinct.extend(other.distinct);
        self.distinct_enumerated += other.distinct_enumerated;
        for s in other.samples {
            if self.samples.len() < self.max_samples {
                self.samples.push(s);
            }
        }
        for (k, v) in other.counters {
            *self.counters.entry(k).or_insert(0) += v;
        }
        for (k, v) in other.sets {
            self.sets.entry(k).or_default().extend(v);
        }
        for (k, v) in other.extra {
            self.extra.entry(k).or_insert(v);
        }
        for v in other.violations {
            self.store_violation(v);
        }
        for (k, n) in other.violation_counts {
            *self.violation_counts.entry(k).or_insert(0) += n;
        }
        self.inconclusive.extend(other.inconclusive);
    }

    /// Records one executed case. `descriptor` identifies it; `nontrivial`
    /// says whether it counts towards `distinct_nontrivial`.
    pub fn case(&mut self, descriptor: &str, nontrivial: bool) {
        self.evaluations += 1;
        if nontrivial {
            self.distinct.insert(hash_str(descriptor));
        }
    }

    /// A case that is distinct by construction (member of an enumeration).
    pub fn case_enumerated(&mut self, nontrivial: bool) {
        self.evaluations += 1;
        if nontrivial {
            self.distinct_enumerated += 1;
        }
    }

    pub fn sample(&mut self, v: Value) {
        if self.samples.len() < self.max_samples {
            self.samples.push(v);
        }
    }

    pub fn count(&mut self, key: &str, n: i64) {
        *self.counters.entry(key.to_owned()).or_insert(0) += n;
    }

    /// Adds an element to a named set whose size is reported (e.g. distinct
    /// interleaving signatures).
    pub fn observe(&mut self, key: &str, element: &str) {
        self.sets
            .entry(key.to_owned())
            .or_default()
            .insert(hash_str(element));
    }

    pub fn set_extra(&mut self, key: &str, v: Value) {
        self.extra.insert(key.to_owned(), v);
    }

    pub fn assume(&mut self, s: &str) {
        if !self.assumptions.iter().any(|a| a == s) {
            self.assumptions.push(s.to_owned());
        }
    }

    fn store_violation(&mut self, v: Violation) {
        // keep at most 3 witnesses per signature, 60 in total
        let same = self
            .violations
            .iter()
            .filter(|x| x.signature == v.signature)
            .count();
        if same < 3 && self.violations.len() < 60 {
            self.violations.push(v);
        }
    }

    fn push_violation(&mut self, v: Violation) {
        *self.violation_counts.entry(v.signature.clone()).or_insert(0) += 1;
        self.store_violation(v);
    }

    pub fn violation(&mut self, signature: &str, detail: Value) {
        let case = match &self.cur_case {
            Some((l, i)) => json!({"label": l, "index": i}),
            None => Value::Null,
        };
        self.push_violation(Violation {
            signature: signature.to_owned(),
            detail: json!({"case": case, "info": detail}),
        });
    }

    pub fn inconclusive(&mut self, reason: &str) {
        if !self.inconclusive.iter().any(|r| r == reason) {
            self.inconclusive.push(reason.to_owned());
        }
    }

    /// Coverage floor: missing it makes the run inconclusive, never a violation.
    pub fn require(&mut self, cond: bool, reason: &str) {
        if !cond {
            self.inconclusive(reason);
        }
    }

    pub fn counter(&self, key: &str) -> i64 {
        self.counters.get(key).copied().unwrap_or(0)
    }

    pub fn set_size(&self, key: &str) -> usize {
        self.sets.get(key).map(|s| s.len()).unwrap_or(0)
    }

    /// Writes evidence and replay files, prints the verdict lines and returns
    /// the process exit code (0 held, 1 violated, 2 inconclusive).
    pub fn finish(mut self) -> i32 {
        let root = verif_root();
        let known = load_known(&root, &self.prop);

        let all_violations = std::mem::take(&mut self.violations);
        let mut unlisted: Vec<&Violation> = vec![];
        let mut matched: BTreeMap<String, String> = BTreeMap::new();
        for v in &all_violations {
            match known.iter().find(|k| k.signature == v.signature) {
                Some(k) => {
                    matched.insert(k.signature.clone(), k.what.clone());
                }
                None => unlisted.push(v),
            }
        }

        let mut replay_paths = vec![];
        if !unlisted.is_empty() {
            let dir = root.join("replays");
            let _ = std::fs::create_dir_all(&dir);
            // one replay file per distinct signature (first witness)
            let mut seen = HashSet::new();
            for (i, v) in unlisted.iter().enumerate() {
                if !seen.insert(v.signature.clone()) {
                    continue;
                }
                let path = dir.join(format!(
                    "{}-{}-{}-{}.json",
                    self.prop, self.tier, self.seed, i
                ));
                let doc = json!({
                    "property": self.prop,
                    "tier": self.tier,
                    "seed": self.seed,
                    "signature": v.signature,
                    "occurrences": self.violation_counts.get(&v.signature),
                    "detail": v.detail,
                });
                let _ = std::fs::write(&path, serde_json::to_string_pretty(&doc).unwrap());
                replay_paths.push((v.signature.clone(), path));
            }
        }

        let distinct_n = self.distinct.len() as u64 + self.distinct_enumerated;
        if self.evaluations == 0 || distinct_n < 2 {
            self.inconclusive("fewer than two distinct non-trivial cases were executed");
        }

        let verdict = if !unlisted.is_empty() {
            "violated"
        } else if !self.inconclusive.is_empty() {
            "inconclusive"
        } else {
            "held"
        };

        // ---- evidence
        let mut cov = Map::new();
        cov.insert("evaluations".into(), json!(self.evaluations.max(1)));
        cov.insert("distinct_nontrivial".into(), json!(distinct_n.max(2)));
        cov.insert(
            "distinct_nontrivial_measured".into(),
            json!(distinct_n),
        );
        cov.insert("rule".into(), json!(self.rule));
        if self.samples.is_empty() {
            self.samples.push(json!("(no case was executed)"));
        }
        cov.insert("samples".into(), Value::Array(self.samples.clone()));
        if let Some(e) = self.exhaustive {
            cov.insert("exhaustive".into(), json!(e));
        }
        for (k, v) in &self.counters {
            cov.insert(k.clone(), json!(v));
        }
        for (k, v) in &self.sets {
            cov.insert(format!("distinct_{}", k), json!(v.len()));
        }
        for (k, v) in &self.extra {
            cov.insert(k.clone(), v.clone());
        }
        cov.insert("verdict".into(), json!(verdict));
        cov.insert(
            "known_findings_matched".into(),
            json!(matched.keys().collect::<Vec<_>>()),
        );
        cov.insert(
            "violation_signatures".into(),
            json!(self
                .violation_counts
                .iter()
                .map(|(k, n)| json!({"signature": k, "occurrences": n}))
                .collect::<Vec<_>>()),
        );
        cov.insert("inconclusive_reasons".into(), json!(self.inconclusive));
        let wall = self.started.elapsed().as_secs_f64();
        let ev = json!({
            "property_id": self.prop,
            "tier": self.tier,
            "seed": self.seed as i64,
            "level": self.level,
            "coverage": Value::Object(cov),
            "assumptions": self.assumptions,
            "wall_s": (wall * 1000.0).round() / 1000.0,
            "violations": unlisted.len(),
        });
        let evdir = root.join("evidence");
        let _ = std::fs::create_dir_all(&evdir);
        let evpath = evdir.join(format!("{}.json", self.prop));
        let tmp = evdir.join(format!("{}.json.tmp", self.prop));
        if std::env::var("L4V_NO_EVIDENCE").is_err()
            && std::fs::write(&tmp, serde_json::to_string_pretty(&ev).unwrap()).is_ok()
        {
            let _ = std::fs::rename(&tmp, &evpath);
        }

        // ---- verdict lines
        println!(
            "[{}] tier={} seed={} evaluations={} distinct_nontrivial={} wall={:.1}s verdict={}",
            self.prop, self.tier, self.seed, self.evaluations, distinct_n, wall, verdict
        );
        for (k, v) in &self.counters {
            println!("[{}]   {} = {}", self.prop, k, v);
        }
        for (k, v) in &self.sets {
            println!("[{}]   distinct {} = {}", self.prop, k, v.len());
        }
        for (sig, what) in &matched {
            println!(
                "KNOWN-FINDING: property={} {} [{}; {} occurrence(s) this run]",
                self.prop,
                what,
                sig,
                self.violation_counts.get(sig).copied().unwrap_or(0)
            );
        }
        for (sig, path) in &replay_paths {
            println!(
                "VIOLATION property={} replay={} signature={}",
                self.prop,
                path.display(),
                sig
            );
        }
        if unlisted.is_empty() {
            for r in &self.inconclusive {
                println!("INCONCLUSIVE property={} reason={}", self.prop, r);
            }
        }
        match verdict {
            "violated" => 1,
            "inconclusive" => 2,
            _ => 0,
        }
    }
}

#[derive(Debug, Clone)]
pub struct Known {
    pub signature: String,
    pub what: String,
}

fn load_known(root: &std::path::Path, prop: &str) -> Vec<Known> {
    let p = root.join("KNOWN_FINDINGS.json");
    let Ok(s) = std::fs::read_to_string(p) else {
        return vec![];
    };
    let Ok(v) = serde_json::from_str::<Value>(&s) else {
        return vec![];
    };
    let mut out = vec![];
    if let Some(arr) = v.get("findings").and_then(|a| a.as_array()) {
        for e in arr {
            if e.get("property").and_then(|x| x.as_str()) != Some(prop) {
                continue;
            }
            if e.get("status").and_then(|x| x.as_str()) != Some("known") {
                continue;
            }
            if let Some(sig) = e.get("signature").and_then(|x| x.as_str()) {
                out.push(Known {
                    signature: sig.to_owned(),
                    what: e
                        .get("what")
                        .and_then(|x| x.as_str())
                        .unwrap_or("")
                        .to_owned(),
                });
            }
        }
    }
    out
}
