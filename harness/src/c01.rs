//! C01 — routing delivers each record to exactly the appenders of its logger chain.

use crate::par::run_cases;
use crate::report::Report;
use crate::rng::Rng;
use crate::routing::*;
use crate::trap;
use serde_json::json;

pub fn run(rep: &mut Report) {
    rep.rule = "random logical configurations (0-8 loggers over a small component alphabet, depth<=5, \
        all 6 level filters, repeated attachments, additive on/off), each built under 3 declaration \
        orders and probed with every configured name, its prefixes, component-wise and textual \
        extensions and hostile targets at all 5 levels; a probe is non-trivial when its effective \
        logger is not the root or the expected delivery multiset is non-empty; distinct = distinct \
        (config, target, level)".to_owned();
    rep.assume("deliveries are compared as multisets keyed by appender name; delivery order is not judged");
    rep.assume("logger names come from a small component alphabet (a, b, ab, a_b, é, bc), depth <= 7, <= 24 loggers; plus chains of 100 .. 21846 components (names around 255/256 components and 65535/65536 bytes)");
    let n = if rep.tier == "thorough" { 100_000 } else { 4_000 };
    run_cases(rep, "config", n, |rep, rng, _| one_config(rep, rng, 8, 5));
    // a second family: many loggers, deep names
    let n2 = if rep.tier == "thorough" { 10_000 } else { 400 };
    run_cases(rep, "deep", n2, |rep, rng, _| one_config(rep, rng, 24, 7));
    // more appenders than fit a 16-bit index (one configuration)
    run_cases(rep, "very-wide", 1, very_wide);
    // records logged from inside an appender
    run_cases(rep, "nested", if rep.tier == "thorough" { 4000 } else { 400 }, nested);
    // a third family: a few loggers hundreds to thousands of components deep
    run_cases(rep, "very-deep", if rep.tier == "thorough" { 280 } else { 56 }, very_deep);
    rep.require(rep.counter("deliveries_compared") > 1000, "fewer than 1000 deliveries compared");
    rep.require(rep.counter("probes_effective_nonroot") > 100, "too few probes reached a non-root logger");
    rep.require(rep.counter("probes_via_additive_chain") > 20, "too few probes exercised additive inheritance");
}

/// An appender that, while handling a record, logs another record through the same logger (a wrapper that
/// reports its own activity, a `Display` implementation that logs): the nested record is routed like any other.
#[derive(Debug)]
struct NestCap {
    sink: Sink,
    logger: std::sync::Arc<std::sync::OnceLock<std::sync::Arc<log4rs::Logger>>>,
    nested_target: String,
    nested_level: log::Level,
}

impl log4rs::append::Append for NestCap {
    fn append(&self, record: &log::Record) -> anyhow::Result<()> {
        let id = record.args().to_string().parse::<u64>().unwrap_or(u64::MAX);
        self.sink.lock().unwrap().push(("NEST".to_owned(), id));
        if id < 1_000_000 {
            if let Some(l) = self.logger.get() {
                log::Log::log(&**l, &log::Record::builder().target(&self.nested_target).level(self.nested_level)
                    .args(format_args!("{}", id + 1_000_000)).build());
            }
        }
        Ok(())
    }
    fn flush(&self) {}
}

fn nested(rep: &mut Report, rng: &mut Rng, _idx: u64) {
    use log4rs::config::{Appender, Config, Logger, Root};
    let mut spec = gen_spec(rng, 6, 4);
    // NEST is attached to the root and, now and then, to a logger
    spec.appenders.push("NEST".into());
    spec.root_appenders.push("NEST".into());
    if !spec.loggers.is_empty() && rng.chance(1, 2) {
        let k = rng.usize_below(spec.loggers.len());
        spec.loggers[k].appenders.push("NEST".into());
    }
    let targets = probe_targets(&spec, rng);
    let nested_target = rng.pick(&targets).clone();
    let nested_level = *rng.pick(&LEVELS);
    let sink = new_sink();
    let cell = std::sync::Arc::new(std::sync::OnceLock::new());
    let mut b = Config::builder();
    for a in &spec.appenders {
        let boxed: Box<dyn log4rs::append::Append> = if a == "NEST" {
            Box::new(NestCap { sink: sink.clone(), logger: cell.clone(), nested_target: nested_target.clone(), nested_level })
        } else {
            Box::new(Cap { name: a.clone(), sink: sink.clone() })
        };
        b = b.appender(Appender::builder().build(a.clone(), boxed));
    }
    for l in &spec.loggers {
        b = b.logger(Logger::builder().additive(l.additive).appenders(l.appenders.clone()).build(l.name.clone(), l.level));
    }
    let cfg = match b.build(Root::builder().appenders(spec.root_appenders.clone()).build(spec.root_level)) {
        Ok(c) => c,
        Err(e) => {
            rep.violation("C01:valid-config-rejected", json!({"spec": spec.to_json(), "error": format!("{:?}", e)}));
            return;
        }
    };
    let logger = std::sync::Arc::new(log4rs::Logger::new_with_err_handler(cfg, Box::new(|_| {})));
    let _ = cell.set(logger.clone());
    let mut id = 0u64;
    for t in targets.iter().take(12) {
        for lvl in LEVELS {
            id += 1;
            sink.lock().unwrap().clear();
            let r = trap::catch(|| log::Log::log(&*logger, &log::Record::builder().target(t).level(lvl).args(format_args!("{}", id)).build()));
            if let Err(p) = r {
                rep.violation(&format!("C01:panic:nested-log:{}", p.site()), json!({"spec": spec.to_json(), "target": t, "panic": p.message}));
                return;
            }
            let all: Vec<(String, u64)> = sink.lock().unwrap().drain(..).collect();
            let mut outer: Vec<String> = all.iter().filter(|(_, r)| *r == id).map(|(n, _)| n.clone()).collect();
            let mut inner: Vec<String> = all.iter().filter(|(_, r)| *r == id + 1_000_000).map(|(n, _)| n.clone()).collect();
            outer.sort();
            inner.sort();
            let want_outer = spec.expected(t, lvl);
            let nests = want_outer.iter().filter(|n| *n == "NEST").count();
            let mut want_inner: Vec<String> = vec![];
            for _ in 0..nests {
                want_inner.extend(spec.expected(&nested_target, nested_level));
            }
            want_inner.sort();
            rep.case(&format!("nested|{}|{}|{}|{}|{}", spec.to_json(), t, lvl, nested_target, nested_level), nests > 0);
            rep.count("records_logged_from_inside_an_appender", nests as i64);
            rep.count("deliveries_compared", (want_outer.len() + want_inner.len()) as i64);
            if outer != want_outer || inner != want_inner {
                rep.violation("C01:misroute:record-logged-while-another-is-being-delivered", json!({"spec": spec.to_json(),
                    "outer": {"target": t, "level": lvl.to_string(), "expected": want_outer, "got": outer},
                    "nested": {"target": nested_target, "level": nested_level.to_string(), "expected": want_inner, "got": inner}}));
                return;
            }
        }
    }
}

/// One configuration with more appenders than a 16-bit index can count.
fn very_wide(rep: &mut Report, rng: &mut Rng, _idx: u64) {
    let n = 65_538usize;
    let appenders: Vec<String> = (0..n).map(|i| format!("W{}", i)).collect();
    let pick = |k: usize| format!("W{}", k);
    let spec = ConfSpec {
        appenders,
        root_level: log::LevelFilter::Info,
        root_appenders: vec![pick(1), pick(65_537)],
        loggers: vec![
            LoggerSpec { name: "wide".into(), level: log::LevelFilter::Trace, additive: false, appenders: vec![pick(65_536), pick(0)] },
            LoggerSpec { name: "wide::inner".into(), level: log::LevelFilter::Debug, additive: true, appenders: vec![pick(65_535), pick(40_000)] },
        ],
    };
    rep.count("configs_with_more_than_65536_appenders", 1);
    check_spec(rep, rng, spec, vec!["wide".into(), "wide::inner".into(), "wide::inner::x".into(), "other".into(), "wid".into()]);
}

/// Loggers hundreds of components deep (around 255/256 and 65535/65536 bytes of name), declared child first.
fn very_deep(rep: &mut Report, rng: &mut Rng, idx: u64) {
    let depths = [100usize, 127, 128, 254, 255, 256, 257, 258, 300, 511, 512, 1000, 2000, 3000];
    let d = depths[(idx as usize) % depths.len()];
    let comp = if idx % 2 == 0 { "a" } else { "é" };
    let parent = vec![comp; d].join("::");
    let child = format!("{}::b", parent);
    let grand = format!("{}::b::a", parent);
    let appenders: Vec<String> = (0..4).map(|i| format!("A{}", i)).collect();
    let mut loggers = vec![
        LoggerSpec { name: grand.clone(), level: *rng.pick(&FILTERS), additive: rng.chance(2, 3), appenders: vec!["A3".into()] },
        LoggerSpec { name: child.clone(), level: *rng.pick(&FILTERS), additive: rng.chance(2, 3), appenders: vec!["A2".into()] },
        LoggerSpec { name: parent.clone(), level: *rng.pick(&FILTERS), additive: rng.chance(2, 3), appenders: vec!["A1".into()] },
    ];
    if rng.chance(1, 3) {
        loggers.remove(1); // implied intermediate
    }
    if rng.chance(1, 2) {
        loggers.reverse();
    }
    let spec = ConfSpec { appenders, root_level: *rng.pick(&FILTERS), root_appenders: vec!["A0".into()], loggers };
    let targets = vec![parent.clone(), child.clone(), grand.clone(), format!("{}::zz", parent), format!("{}::zz", grand),
        format!("{}::b::zz", parent), vec![comp; d - 1].join("::"), "a".to_owned()];
    rep.count("configs_with_very_deep_loggers", 1);
    check_spec(rep, rng, spec, targets);
}

fn one_config(rep: &mut Report, rng: &mut Rng, max_loggers: usize, max_depth: usize) {
    let spec = gen_spec(rng, max_loggers, max_depth);
    let targets = probe_targets(&spec, rng);
    check_spec(rep, rng, spec, targets);
}

fn check_spec(rep: &mut Report, rng: &mut Rng, spec: ConfSpec, targets: Vec<String>) {
    let spec_s = spec.to_json().to_string();
    for perm in 0..3 {
        let sink = new_sink();
        let mut prng = Rng::new(rng.next_u64());
        // in the last declaration order some appenders report errors: deliveries to the others must not change
        let failing: Vec<String> = if perm == 2 {
            spec.appenders.iter().filter(|_| prng.chance(1, 3)).cloned().collect()
        } else {
            vec![]
        };
        if !failing.is_empty() {
            rep.count("configs_with_failing_appenders", 1);
        }
        let cfg = match build_config_failing(&spec, &sink, "", if perm == 0 { None } else { Some(&mut prng) }, &failing) {
            Ok(c) => c,
            Err(e) => {
                rep.violation("C01:valid-config-rejected", json!({"spec": spec.to_json(), "error": e}));
                return;
            }
        };
        let logger = match trap::catch(|| log4rs::Logger::new_with_err_handler(cfg, Box::new(|_| {}))) {
            Ok(l) => l,
            Err(p) => {
                rep.violation(&format!("C01:panic:Logger::new:{}", p.site()),
                    json!({"spec": spec.to_json(), "panic": p.message}));
                return;
            }
        };
        let mut id = 0u64;
        for t in &targets {
            for lvl in LEVELS {
                id += 1;
                let want = spec.expected(t, lvl);
                let got = match trap::catch(|| deliver(&logger, &sink, t, lvl, id)) {
                    Ok(g) => g,
                    Err(p) => {
                        rep.violation(&format!("C01:panic:log:{}", p.site()),
                            json!({"spec": spec.to_json(), "target": t, "level": lvl.to_string(), "panic": p.message}));
                        continue;
                    }
                };
                let eff = spec.effective(t);
                let nontrivial = eff.is_some() || !want.is_empty();
                if perm == 0 {
                    rep.case(&format!("{}|{}|{}", spec_s, t, lvl), nontrivial);
                    if eff.is_some() {
                        rep.count("probes_effective_nonroot", 1);
                        let e = eff.unwrap();
                        if e.additive && !want.is_empty() && want.len() > e.appenders.len() {
                            rep.count("probes_via_additive_chain", 1);
                        }
                        if !e.additive {
                            rep.count("probes_nonadditive_logger", 1);
                        }
                    }
                } else {
                    rep.evaluations += 1;
                }
                rep.count("deliveries_compared", want.len() as i64);
                rep.count("log_calls", 1);
                if got != want {
                    rep.violation(
                        if perm == 0 { "C01:misroute" } else { "C01:misroute-order-dependent" },
                        json!({"spec": spec.to_json(), "declaration_order": perm, "target": t,
                               "level": lvl.to_string(), "expected": want, "got": got,
                               "effective_logger": eff.map(|e| e.name.clone())}),
                    );
                }
            }
        }
        if perm == 0 && rep.samples.len() < rep.max_samples {
            let t = &targets[targets.len() / 2];
            rep.sample(json!({"spec": spec.to_json(), "target": t, "level": "INFO",
                              "expected_deliveries": spec.expected(t, log::Level::Info)}));
        }
    }
}
