//! K — calendar model: own proleptic-Gregorian arithmetic on naive local
//! date-times, independent of the builders the time trigger uses.

/// Days since 1970-01-01 for a civil date (proleptic Gregorian).
pub fn days_from_civil(y: i64, m: i64, d: i64) -> i64 {
    let y = if m <= 2 { y - 1 } else { y };
    let era = if y >= 0 { y } else { y - 399 } / 400;
    let yoe = y - era * 400;
    let mp = (m + 9) % 12;
    let doy = (153 * mp + 2) / 5 + d - 1;
    let doe = yoe * 365 + yoe / 4 - yoe / 100 + doy;
    era * 146097 + doe - 719468
}

pub fn civil_from_days(z: i64) -> (i64, i64, i64) {
    let z = z + 719468;
    let era = if z >= 0 { z } else { z - 146096 } / 146097;
    let doe = z - era * 146097;
    let yoe = (doe - doe / 1460 + doe / 36524 - doe / 146096) / 365;
    let y = yoe + era * 400;
    let doy = doe - (365 * yoe + yoe / 4 - yoe / 100);
    let mp = (5 * doy + 2) / 153;
    let d = doy - (153 * mp + 2) / 5 + 1;
    let m = if mp < 10 { mp + 3 } else { mp - 9 };
    (if m <= 2 { y + 1 } else { y }, m, d)
}

/// 0 = Monday … 6 = Sunday.
pub fn weekday_from_days(z: i64) -> i64 {
    // 1970-01-01 was a Thursday (3)
    (z + 3).rem_euclid(7)
}

pub fn is_leap(y: i64) -> bool {
    (y % 4 == 0 && y % 100 != 0) || y % 400 == 0
}

fn weeks_in_iso_year(y: i64) -> i64 {
    // a year has 53 ISO weeks iff Jan 1 is a Thursday, or a Wednesday in a leap year
    let jan1 = weekday_from_days(days_from_civil(y, 1, 1));
    if jan1 == 3 || (jan1 == 2 && is_leap(y)) {
        53
    } else {
        52
    }
}

/// ISO week number minus one of the given date.
pub fn iso_week0(y: i64, m: i64, d: i64) -> i64 {
    let days = days_from_civil(y, m, d);
    let ordinal = days - days_from_civil(y, 1, 1) + 1;
    let wd = weekday_from_days(days) + 1; // 1..7
    let mut week = (ordinal - wd + 10) / 7;
    if week < 1 {
        week = weeks_in_iso_year(y - 1);
    } else if week > weeks_in_iso_year(y) {
        week = 1;
    }
    week - 1
}

/// Naive local date-time as (days since epoch, seconds of day).
#[derive(Clone, Copy, Debug, PartialEq, Eq)]
pub struct Naive {
    pub days: i64,
    pub sod: i64,
}

impl Naive {
    pub fn new(y: i64, mo: i64, d: i64, h: i64, mi: i64, s: i64) -> Naive {
        Naive { days: days_from_civil(y, mo, d), sod: h * 3600 + mi * 60 + s }
    }
    pub fn norm(mut self) -> Naive {
        self.days += self.sod.div_euclid(86400);
        self.sod = self.sod.rem_euclid(86400);
        self
    }
    pub fn ymd_hms(&self) -> (i64, i64, i64, i64, i64, i64) {
        let (y, m, d) = civil_from_days(self.days);
        (y, m, d, self.sod / 3600, self.sod % 3600 / 60, self.sod % 60)
    }
}

#[derive(Clone, Copy, Debug, PartialEq, Eq)]
pub enum Unit {
    Second,
    Minute,
    Hour,
    Day,
    Week,
    Month,
    Year,
}

pub const UNITS: [Unit; 7] = [Unit::Second, Unit::Minute, Unit::Hour, Unit::Day, Unit::Week, Unit::Month, Unit::Year];

/// The boundary the statement prescribes, in naive local time: without
/// modulation exactly `n` units after the start of the current unit; with
/// modulation the next multiple of `n` counted from the start of the enclosing
/// period (second-of-minute, minute-of-hour, hour-of-day, day-of-year,
/// ISO-week-of-year, month-of-year, year).
pub fn expected_next(cur: Naive, unit: Unit, n: i64, modulate: bool) -> Naive {
    let (y, mo, d, h, mi, s) = cur.ymd_hms();
    let inc = |pos: i64| if modulate { n - pos % n } else { n };
    match unit {
        Unit::Second => Naive { days: cur.days, sod: h * 3600 + mi * 60 + s + inc(s) }.norm(),
        Unit::Minute => Naive { days: cur.days, sod: h * 3600 + (mi + inc(mi)) * 60 }.norm(),
        Unit::Hour => Naive { days: cur.days, sod: (h + inc(h)) * 3600 }.norm(),
        Unit::Day => {
            let ordinal0 = cur.days - days_from_civil(y, 1, 1);
            Naive { days: cur.days + inc(ordinal0), sod: 0 }
        }
        Unit::Week => {
            let monday = cur.days - weekday_from_days(cur.days);
            Naive { days: monday + 7 * inc(iso_week0(y, mo, d)), sod: 0 }
        }
        Unit::Month => {
            let months = y * 12 + (mo - 1) + inc(mo - 1);
            Naive::new(months.div_euclid(12), months.rem_euclid(12) + 1, 1, 0, 0, 0)
        }
        Unit::Year => Naive::new(y + inc(y), 1, 1, 0, 0, 0),
    }
}

#[cfg(test)]
mod t {
    use super::*;
    #[test]
    fn roundtrip() {
        for z in -800_000..800_000 {
            let (y, m, d) = civil_from_days(z);
            assert_eq!(days_from_civil(y, m, d), z);
        }
        assert_eq!(days_from_civil(1970, 1, 1), 0);
        assert_eq!(weekday_from_days(days_from_civil(2024, 5, 17)), 4); // Friday
        assert_eq!(iso_week0(2024, 12, 30), 0);
        assert_eq!(iso_week0(2021, 1, 3), 52);
        assert_eq!(iso_week0(2020, 12, 31), 52);
    }
}
