//! Running part of a check in a differently built harness binary (release
//! profile, background_rotation feature) and merging what it observed.

use crate::report::Report;
use serde_json::{json, Value};
use std::process::Command;

/// Child side: run `prop` into a fresh report and print it.
pub fn child_main(args: &[String]) -> i32 {
    let prop = args[0].clone();
    let tier = args[1].clone();
    let seed: u64 = args[2].parse().unwrap_or(0);
    crate::trap::install();
    std::env::set_var("L4V_SUBRUN", "1");
    let mut rep = Report::new(&prop, &tier, seed, "exploration");
    match prop.as_str() {
        "C05BG" => crate::c05::run_background(&mut rep),
        "C08BG" => crate::c08::run_background(&mut rep),
        p => {
            if !crate::run_prop(p, &mut rep) {
                return 2;
            }
        }
    }
    let viol: Vec<Value> = rep.violations.iter().map(|v| json!({"signature": v.signature, "detail": v.detail})).collect();
    println!("RESULT {}", json!({"evaluations": rep.evaluations, "distinct": rep.distinct.len() as u64 + rep.distinct_enumerated,
        "counters": rep.counters, "violations": viol, "violation_counts": rep.violation_counts, "inconclusive": rep.inconclusive,
        "profile": if cfg!(debug_assertions) { "dev" } else { "release" }}));
    0
}

/// Parent side. `bin_env` names the environment variable holding the other binary's path.
pub fn merge(rep: &mut Report, bin_env: &str, prop: &str, prefix: &str) {
    if std::env::var("L4V_SUBRUN").is_ok() || rep.only.is_some() {
        return;
    }
    let Ok(bin) = std::env::var(bin_env) else {
        rep.inconclusive(&format!("{} is not set: the {} part of this check was not run (use ./check)", bin_env, prefix));
        return;
    };
    let out = Command::new(&bin).args(["child", "subrun", prop, &rep.tier, &rep.seed.to_string()]).output();
    let out = match out {
        Ok(o) => o,
        Err(e) => {
            rep.inconclusive(&format!("cannot run {}: {}", bin, e));
            return;
        }
    };
    let text = String::from_utf8_lossy(&out.stdout);
    let Some(line) = text.lines().rev().find(|l| l.starts_with("RESULT ")) else {
        rep.inconclusive(&format!("{} part produced no result: {}", prefix, String::from_utf8_lossy(&out.stderr).chars().take(300).collect::<String>()));
        return;
    };
    let v: Value = serde_json::from_str(&line[7..]).unwrap_or(Value::Null);
    rep.evaluations += v["evaluations"].as_u64().unwrap_or(0);
    if prefix == "release" {
        // same seed, same cases: they are further evaluations, not further distinct cases
        rep.count("release_distinct_cases", v["distinct"].as_i64().unwrap_or(0));
    } else {
        rep.distinct_enumerated += v["distinct"].as_u64().unwrap_or(0);
    }
    rep.count(&format!("{}_evaluations", prefix), v["evaluations"].as_i64().unwrap_or(0));
    for (k, c) in v["counters"].as_object().cloned().unwrap_or_default() {
        rep.count(&format!("{}_{}", prefix, k), c.as_i64().unwrap_or(0));
    }
    for viol in v["violations"].as_array().cloned().unwrap_or_default() {
        let sig = viol["signature"].as_str().unwrap_or("subrun").to_owned();
        rep.violations.push(crate::report::Violation { signature: sig, detail: json!({"part": prefix, "detail": viol["detail"]}) });
    }
    for (k, c) in v["violation_counts"].as_object().cloned().unwrap_or_default() {
        *rep.violation_counts.entry(k).or_insert(0) += c.as_u64().unwrap_or(0);
    }
    for r in v["inconclusive"].as_array().cloned().unwrap_or_default() {
        rep.inconclusive(&format!("{} part: {}", prefix, r.as_str().unwrap_or("")));
    }
    rep.set_extra(&format!("{}_part_profile", prefix), v["profile"].clone());
    if prefix == "release" {
        rep.assume("the whole workload is run twice with the same seed: by this (dev profile: debug assertions and overflow checks on) build and by a release build of harness and log4rs; the counters of the second run carry the prefix release_ and its cases are counted as further evaluations");
    }
}
