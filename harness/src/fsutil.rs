//! Scratch directories and directory snapshots.

use std::collections::BTreeMap;
use std::fs;
use std::io;
use std::os::unix::fs::MetadataExt;
use std::path::{Path, PathBuf};
use std::sync::atomic::{AtomicU64, Ordering};

static COUNTER: AtomicU64 = AtomicU64::new(0);

/// A directory removed on drop.
#[derive(Debug)]
pub struct Scratch {
    pub path: PathBuf,
}

fn scratch_base() -> PathBuf {
    match std::env::var("L4V_SCRATCH") {
        Ok(p) if !p.is_empty() => PathBuf::from(p),
        _ => std::env::temp_dir(),
    }
}

impl Scratch {
    pub fn new(tag: &str) -> Scratch {
        let n = COUNTER.fetch_add(1, Ordering::Relaxed);
        let path = scratch_base().join(format!("l4v-{}-{}-{}", std::process::id(), tag, n));
        let _ = fs::remove_dir_all(&path);
        fs::create_dir_all(&path).expect("cannot create scratch directory");
        Scratch { path }
    }
    pub fn join(&self, rel: &str) -> PathBuf {
        self.path.join(rel)
    }
    pub fn s(&self, rel: &str) -> String {
        self.path.join(rel).to_str().unwrap().to_owned()
    }
}

/// A scratch directory on a file system other than the one scratch directories normally live on
/// (renames between the two fail with EXDEV), if this machine has one that is writable.
pub fn scratch_on_another_mount(tag: &str) -> Option<Scratch> {
    let home = fs::metadata(scratch_base()).ok()?.dev();
    for cand in ["/dev/shm", "/run/shm", "/var/tmp", "/run"] {
        let p = Path::new(cand);
        match fs::metadata(p) {
            Ok(m) if m.is_dir() && m.dev() != home => {}
            _ => continue,
        }
        let n = COUNTER.fetch_add(1, Ordering::Relaxed);
        let path = p.join(format!("l4v-{}-{}-{}", std::process::id(), tag, n));
        let _ = fs::remove_dir_all(&path);
        if fs::create_dir_all(&path).is_ok() {
            return Some(Scratch { path });
        }
    }
    None
}

impl Drop for Scratch {
    fn drop(&mut self) {
        let _ = fs::remove_dir_all(&self.path);
    }
}

#[derive(Clone, Debug, PartialEq, Eq)]
pub enum Entry {
    Dir,
    File {
        bytes: Vec<u8>,
        ino: u64,
        mtime_ns: i128,
    },
}

pub type Snapshot = BTreeMap<String, Entry>;

fn walk(root: &Path, dir: &Path, out: &mut Snapshot) -> io::Result<()> {
    for e in fs::read_dir(dir)? {
        let e = e?;
        let p = e.path();
        let rel = p.strip_prefix(root).unwrap().to_string_lossy().into_owned();
        let md = fs::symlink_metadata(&p)?;
        if md.is_dir() {
            out.insert(rel, Entry::Dir);
            walk(root, &p, out)?;
        } else if md.file_type().is_symlink() {
            // never follow links (a fault injector may point one at /dev/full)
            out.insert(rel, Entry::Dir);
        } else {
            let bytes = fs::read(&p)?;
            out.insert(
                rel,
                Entry::File {
                    bytes,
                    ino: md.ino(),
                    mtime_ns: md.mtime() as i128 * 1_000_000_000 + md.mtime_nsec() as i128,
                },
            );
        }
    }
    Ok(())
}

/// Recursive snapshot: relative path -> directory marker or file content.
pub fn snapshot(root: &Path) -> io::Result<Snapshot> {
    let mut out = Snapshot::new();
    walk(root, root, &mut out)?;
    Ok(out)
}

/// Only the files of a snapshot, as path -> bytes.
pub fn files_of(s: &Snapshot) -> BTreeMap<String, Vec<u8>> {
    s.iter()
        .filter_map(|(k, v)| match v {
            Entry::File { bytes, .. } => Some((k.clone(), bytes.clone())),
            Entry::Dir => None,
        })
        .collect()
}

pub fn copy_dir(src: &Path, dst: &Path) -> io::Result<()> {
    fs::create_dir_all(dst)?;
    for e in fs::read_dir(src)? {
        let e = e?;
        let p = e.path();
        let to = dst.join(e.file_name());
        if fs::symlink_metadata(&p)?.is_dir() {
            copy_dir(&p, &to)?;
        } else {
            fs::copy(&p, &to)?;
        }
    }
    Ok(())
}

/// Short printable rendering of bytes for evidence / replay files.
pub fn show_bytes(b: &[u8]) -> String {
    let s = String::from_utf8_lossy(b);
    if s.chars().count() > 160 {
        let head: String = s.chars().take(160).collect();
        format!("{}…[{} bytes]", head, b.len())
    } else {
        s.into_owned()
    }
}
