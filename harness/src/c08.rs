//! C08 — a failed or interrupted rotation loses no acknowledged data and is recoverable.
//! Fault enumeration over every hook point (each archive shift, the final
//! move/compress) of every rotation of a history.

use crate::c04::{append_frame, take_panic};
use crate::c07::Comp;
use crate::childproc::run_child;
use crate::frames::*;
use crate::fsutil::{copy_dir, Scratch};
use crate::hooks;
use crate::par::run_cases;
use crate::report::Report;
use crate::rng::Rng;
use crate::rolling::*;
use log4rs::append::rolling_file::policy::compound::trigger::size::SizeTrigger;
use log4rs::append::rolling_file::policy::compound::trigger::Trigger;
use log4rs::append::Append;
use log4rs::encode::pattern::PatternEncoder;
use serde_json::{json, Value};
use std::cell::RefCell;
use std::collections::VecDeque;
use std::path::{Path, PathBuf};
use std::rc::Rc;
use std::sync::Mutex;
use std::time::Duration;

#[derive(Clone, Debug)]
pub struct Cfg {
    pub seed: u64,
    pub base: u32,
    pub count: u32,
    pub append_mode: bool,
    pub pre: bool,
    pub limit: u64,
    pub comp: Comp,
    pub pattern_rel: String,
    pub n_appends: usize,
}

impl Cfg {
    pub fn gen(seed: u64, thorough: bool) -> Cfg {
        let mut r = Rng::new(seed);
        let _ = thorough;
        let comp = if cfg!(feature = "full") && r.chance(1, 4) { if r.chance(1, 2) { Comp::Gz } else { Comp::Zst } } else { Comp::None };
        // (two long non-ASCII directory names whose byte lengths differ by one: whatever an error path does
        // with the path text, some byte offset falls inside a character in one of them)
        let mut pattern_rel = (*r.pick(&["app.{}.log", "arch/app.{}.log", "arch/{}/app.log", "arch/{}/app.log",
            "архив-журналов-приложения-за-прошлые-периоды/app.{}.log", "xархив-журналов-приложения-за-прошлые-периоды/журнал.{}.log"])).to_owned();
        match comp {
            Comp::Gz => pattern_rel.push_str(".gz"),
            Comp::Zst => pattern_rel.push_str(".zst"),
            Comp::None => {}
        }
        Cfg {
            seed,
            base: *r.pick(&[0u32, 1]),
            count: 1 + r.below(4) as u32,
            append_mode: r.chance(1, 2),
            pre: r.chance(1, 3),
            limit: *r.pick(&[40u64, 100, 1100]),
            comp,
            pattern_rel,
            n_appends: 8 + r.usize_below(14),
        }
    }
    pub fn roller(&self) -> RollerKind {
        RollerKind::Window { base: self.base, count: self.count, comp: self.comp, pattern_rel: self.pattern_rel.clone() }
    }
    pub fn describe(&self) -> Value {
        json!({"history_seed": self.seed, "window": {"base": self.base, "count": self.count, "pattern": self.pattern_rel},
            "open_mode": if self.append_mode { "append" } else { "truncate" },
            "trigger": if self.pre { "scripted pre-processing".to_owned() } else { format!("size {} (post-processing)", self.limit) },
            "appends": self.n_appends})
    }
    fn sizes(&self) -> Vec<usize> {
        let mut r = Rng::new(self.seed ^ 0xABCD);
        (0..self.n_appends + 40)
            .map(|_| match r.below(4) {
                0 => self.limit as usize / 4,
                1 => self.limit as usize / 2,
                2 => self.limit as usize + 5,
                _ => 10,
            })
            .collect()
    }
    fn script(&self) -> VecDeque<bool> {
        let mut r = Rng::new(self.seed ^ 0x1234);
        (0..self.n_appends + 40).map(|_| r.chance(2, 5)).collect()
    }
}

#[derive(Debug)]
struct ScriptT {
    left: Mutex<VecDeque<bool>>,
}
impl Trigger for ScriptT {
    fn trigger(&self, _f: &log4rs::append::rolling_file::LogFile) -> anyhow::Result<bool> {
        Ok(self.left.lock().unwrap().pop_front().unwrap_or(true))
    }
    fn is_pre_process(&self) -> bool {
        true
    }
}

fn build(cfg: &Cfg, root: &Path, script: VecDeque<bool>) -> Result<Box<dyn Append>, String> {
    let trig: Box<dyn Trigger> = if cfg.pre { Box::new(ScriptT { left: Mutex::new(script) }) } else { Box::new(SizeTrigger::new(cfg.limit)) };
    let roller = cfg.roller().build(root).map_err(|e| e.to_string())?;
    match crate::trap::catch(|| build_appender(root, cfg.append_mode, Box::new(PatternEncoder::new("{m}{n}")), trig, roller)) {
        Err(p) => Err(format!("panic while building the appender: {} at {}", p.message, p.site())),
        Ok(Err(e)) => Err(e.to_string()),
        Ok(Ok(a)) => Ok(Box::new(a)),
    }
}

/// Decoded contents of everything under a managed name or the active path.
fn chunk_contents(root: &Path, kind: &RollerKind) -> Result<Vec<(String, Vec<u8>)>, String> {
    let files = dir_files(root);
    let mut out = vec![];
    for (_, name) in kind.managed() {
        if let Some(b) = files.get(&name) {
            out.push((name.clone(), decode_archive(&name, b).map_err(|e| format!("{}: {}", name, e))?));
        }
    }
    if let Some(b) = files.get(ACTIVE) {
        out.push((ACTIVE.to_owned(), b.clone()));
    }
    Ok(out)
}

#[derive(Default)]
struct HookState {
    /// global index of the next hook point
    point: usize,
    in_rotation: bool,
    rotation: usize,
    step_in_rotation: usize,
    /// chunks the rotation in progress must retain (taken at its first point)
    retained: Vec<Vec<u8>>,
    fault_at: Option<usize>,
    /// use a symlink to /dev/full (writes fail with ENOSPC) instead of an obstacle directory, where possible
    devfull: bool,
    planted: Option<PathBuf>,
    fault_skipped: bool,
    used_devfull: bool,
    used_dangling: bool,
    /// replace the (still empty) archive directory by a regular file at the final step of the first rotation
    dirfile: bool,
    used_dirfile: bool,
    images_to: Option<PathBuf>,
    images: Vec<ImageMeta>,
    abort_at: Option<usize>,
    points_log: Vec<String>,
    problems: Vec<(String, String)>,
}

#[derive(Clone, Debug)]
struct ImageMeta {
    point: usize,
    rotation: usize,
    step: String,
    dir: PathBuf,
    acks_so_far: usize,
    retained: Vec<Vec<u8>>,
}

fn plant_obstacle(dest: &Path) {
    let _ = std::fs::remove_file(dest);
    let _ = std::fs::create_dir_all(dest.join("obstacle"));
    let _ = std::fs::write(dest.join("obstacle/keep"), b"x");
}

fn remove_obstacles(root: &Path, kind: &RollerKind) {
    for (_, name) in kind.managed() {
        let p = root.join(&name);
        // a regular file where a directory of the pattern belongs
        let mut anc = p.parent();
        while let Some(a) = anc {
            if a == root {
                break;
            }
            if std::fs::symlink_metadata(a).map(|m| m.is_file()).unwrap_or(false) {
                let _ = std::fs::remove_file(a);
            }
            anc = a.parent();
        }
        // a dangling link in place of a slot directory
        if let Some(d) = p.parent() {
            if std::fs::symlink_metadata(d).map(|m| m.file_type().is_symlink()).unwrap_or(false) {
                let _ = std::fs::remove_file(d);
            }
        }
        if std::fs::symlink_metadata(&p).map(|m| m.file_type().is_symlink()).unwrap_or(false) {
            let _ = std::fs::remove_file(&p);
        } else if p.is_dir() && p.join("obstacle/keep").exists() {
            let _ = std::fs::remove_dir_all(&p);
        }
    }
}

fn check_retained(root: &Path, kind: &RollerKind, retained: &[Vec<u8>]) -> Result<(), String> {
    let have = chunk_contents(root, kind)?;
    for (k, c) in retained.iter().enumerate() {
        if c.is_empty() {
            continue;
        }
        if !have.iter().any(|(_, h)| h == c) {
            return Err(format!(
                "chunk #{} ({} bytes, starts {:?}) that the completed rotation retains is not intact under any managed name or the active path; present: {:?}",
                k, c.len(), crate::fsutil::show_bytes(&c[..c.len().min(30)]),
                have.iter().map(|(n, h)| format!("{} ({} bytes)", n, h.len())).collect::<Vec<_>>()));
        }
    }
    Ok(())
}

fn stream_check(root: &Path, kind: &RollerKind, acks: &[Ack]) -> Result<StreamStats, (String, String)> {
    let files = dir_files(root);
    let bytes = read_stream(&files, kind).map_err(|e| ("archive-does-not-decode".to_owned(), e))?;
    let parsed = parse_stream(&bytes).map_err(|e| ("S:stream-not-whole-frames".to_owned(), e))?;
    check_stream(&parsed, acks, &StreamOpts { allow_oldest_lost: true })
}

/// Frames currently in the active file become "maybe" (truncate-mode reopen drops them legitimately).
fn forgive_active(root: &Path, acks: &mut [Ack]) {
    if let Ok(b) = std::fs::read(root.join(ACTIVE)) {
        if let Ok(p) = parse_stream(&b) {
            for f in p {
                for a in acks.iter_mut() {
                    if a.id == f.id {
                        a.ok = false;
                    }
                }
            }
        }
    }
}

pub struct RunOut {
    pub acks: Vec<Ack>,
    pub points: usize,
    pub rotations: usize,
    pub images: Vec<(usize, usize, String, PathBuf, usize, Vec<Vec<u8>>)>,
    pub failed_append_seq: Option<u32>,
    pub problems: Vec<(String, String)>,
    pub planted: Option<PathBuf>,
    pub fault_skipped: bool,
    pub used_devfull: bool,
    pub used_dangling: bool,
    pub used_dirfile: bool,
    pub retained: Vec<Vec<u8>>,
    pub app: Option<Box<dyn Append>>,
    pub next_seq: u32,
}

/// Runs the history on `root`. With `fault_at`, the obstacle is planted at that
/// hook point and the run stops right after the failing append.
pub fn run_history(cfg: &Cfg, root: &Path, fault_at: Option<usize>, images_to: Option<PathBuf>, abort_at: Option<usize>) -> RunOut {
    run_history_with(cfg, root, fault_at, images_to, abort_at, false)
}

pub fn run_history_with(cfg: &Cfg, root: &Path, fault_at: Option<usize>, images_to: Option<PathBuf>, abort_at: Option<usize>, devfull: bool) -> RunOut {
    run_history_mode(cfg, root, fault_at, images_to, abort_at, devfull, false)
}

pub fn run_history_mode(cfg: &Cfg, root: &Path, fault_at: Option<usize>, images_to: Option<PathBuf>, abort_at: Option<usize>, devfull: bool, dirfile: bool) -> RunOut {
    let kind = cfg.roller();
    let st = Rc::new(RefCell::new(HookState { fault_at, images_to, abort_at, devfull, dirfile, ..Default::default() }));
    let acks_count = Rc::new(RefCell::new(0usize));
    {
        let st = st.clone();
        let root = root.to_path_buf();
        let kind = kind.clone();
        let acks_count = acks_count.clone();
        let pattern_rel = cfg.pattern_rel.clone();
        hooks::set_local(Some(Box::new(move |name, arg| {
            if name != "rotate.shift" && name != "rotate.final" {
                return;
            }
            let mut s = st.borrow_mut();
            let p = s.point;
            s.point += 1;
            if !s.in_rotation {
                s.in_rotation = true;
                s.step_in_rotation = 0;
                // nothing has moved yet: what the completed rotation keeps = active + all archives but the oldest slot
                let mut retained = vec![];
                if let Ok(have) = chunk_contents(&root, &kind) {
                    let managed = kind.managed();
                    let oldest = managed.last().map(|(_, n)| n.clone());
                    for (n, c) in have {
                        if Some(&n) != oldest.as_ref() {
                            retained.push(c);
                        }
                    }
                }
                s.retained = retained;
            } else {
                s.step_in_rotation += 1;
            }
            let step = format!("{}({})", name, arg);
            let entry = format!("r{}:{}", s.rotation, step);
            s.points_log.push(entry);
            if let Some(dir) = s.images_to.clone() {
                let d = dir.join(format!("p{}", p));
                if copy_dir(&root, &d).is_ok() {
                    let meta = ImageMeta { point: p, rotation: s.rotation, step: step.clone(), dir: d, acks_so_far: *acks_count.borrow(), retained: s.retained.clone() };
                    s.images.push(meta);
                }
            }
            if s.abort_at == Some(p) {
                std::process::abort();
            }
            if s.fault_at == Some(p) {
                let idx = if name == "rotate.shift" { arg + 1 } else { arg };
                let dest = root.join(crate::c07::archive_rel(&pattern_rel, idx));
                // a shift whose source does not exist is a tolerated no-op: an obstacle cannot make it fail
                let src_exists = name != "rotate.shift" || root.join(crate::c07::archive_rel(&pattern_rel, arg)).exists();
                let dest_dir = dest.parent().map(|p| p.to_path_buf());
                let per_index_dir = pattern_rel.contains("{}/");
                let _ = &dest_dir;
                // the archive directory (still empty: first rotation, final step) is replaced by a regular file
                let top = pattern_rel.split('/').next().map(|c| root.join(c));
                let top_is_empty_dir = top.as_ref().map(|t| std::fs::read_dir(t).map(|mut d| d.next().is_none()).unwrap_or(false)).unwrap_or(false);
                if s.dirfile && name == "rotate.final" && pattern_rel.contains('/') && top_is_empty_dir {
                    let t = top.unwrap();
                    if std::fs::remove_dir(&t).is_ok() && std::fs::write(&t, b"not a directory").is_ok() {
                        s.used_dirfile = true;
                        s.planted = Some(t);
                    } else {
                        s.fault_skipped = true;
                    }
                    s.rotation += 1;
                    return;
                }
                // this shift is a no-op (slot `arg` is still empty) but the next one (arg-1 -> arg) is not: the
                // (empty or missing) directory of slot `arg` is replaced by a dangling link, as when the slot was
                // moved to a volume that is not mounted. Making that directory must then fail.
                let next_src_exists = name == "rotate.shift" && arg >= 1
                    && root.join(crate::c07::archive_rel(&pattern_rel, arg - 1)).exists();
                let slot_dir = root.join(crate::c07::archive_rel(&pattern_rel, arg)).parent().map(|p| p.to_path_buf());
                if !src_exists && next_src_exists && s.devfull && per_index_dir && slot_dir.is_some() {
                    let d = slot_dir.unwrap();
                    let _ = std::fs::remove_dir(&d);
                    if std::fs::symlink_metadata(&d).is_err()
                        && std::os::unix::fs::symlink("/nonexistent/l4v-nowhere", &d).is_ok()
                    {
                        s.used_dangling = true;
                        s.planted = Some(d);
                    } else {
                        s.fault_skipped = true;
                    }
                } else if src_exists {
                    if s.devfull && name == "rotate.final" && (pattern_rel.ends_with(".gz") || pattern_rel.ends_with(".zst")) {
                        let _ = std::fs::remove_file(&dest);
                        let _ = std::os::unix::fs::symlink("/dev/full", &dest);
                        s.used_devfull = true;
                    } else {
                        plant_obstacle(&dest);
                    }
                    s.planted = Some(dest);
                } else {
                    s.fault_skipped = true;
                }
            }
            if name == "rotate.final" {
                s.rotation += 1;
                // the rotation ends with this step; the flag is reset when append returns
            }
        })));
    }
    let mut out = RunOut { acks: vec![], points: 0, rotations: 0, images: vec![], failed_append_seq: None, problems: vec![], planted: None, fault_skipped: false, used_devfull: false, used_dangling: false, used_dirfile: false, retained: vec![], app: None, next_seq: 0 };
    let app = match build(cfg, root, cfg.script()) {
        Ok(a) => a,
        Err(e) => {
            out.problems.push(("build-failed".into(), e));
            hooks::set_local(None);
            return out;
        }
    };
    let sizes = cfg.sizes();
    for seq in 0..cfg.n_appends as u32 {
        let a = append_frame(&*app, 1, seq, sizes[seq as usize], false);
        st.borrow_mut().in_rotation = false;
        if let Some(p) = take_panic() {
            out.problems.push(("panic:append".into(), p));
        }
        let ok = a.ok;
        out.acks.push(a);
        *acks_count.borrow_mut() = out.acks.len();
        out.next_seq = seq + 1;
        if !ok {
            out.failed_append_seq = Some(seq);
            if fault_at.is_some() && st.borrow().planted.is_some() {
                break;
            }
        } else if fault_at.is_some() && st.borrow().used_dangling {
            // the rotation with the dangling link got through: stop here so that its outcome can be inspected
            break;
        }
    }
    hooks::set_local(None);
    let s = st.borrow();
    out.points = s.point;
    out.rotations = s.rotation;
    out.images = s.images.iter().map(|m| (m.point, m.rotation, m.step.clone(), m.dir.clone(), m.acks_so_far, m.retained.clone())).collect();
    out.planted = s.planted.clone();
    out.fault_skipped = s.fault_skipped;
    out.used_devfull = s.used_devfull;
    out.used_dangling = s.used_dangling;
    out.used_dirfile = s.used_dirfile;
    out.retained = s.retained.clone();
    out.problems.extend(s.problems.iter().cloned());
    out.app = Some(app);
    out
}

fn continue_appends(app: &dyn Append, acks: &mut Vec<Ack>, seq: &mut u32, n: usize, big: usize) -> Vec<bool> {
    continue_appends_checked(app, acks, seq, n, big, None).0
}

/// Like `continue_appends`, but runs the stream oracle after every single append (damage done by one
/// rotation may be evicted from the window by the next ones).
fn continue_appends_checked(
    app: &dyn Append,
    acks: &mut Vec<Ack>,
    seq: &mut u32,
    n: usize,
    big: usize,
    check: Option<(&Path, &RollerKind)>,
) -> (Vec<bool>, Option<(String, String)>) {
    let mut oks = vec![];
    for _ in 0..n {
        let before = check.and_then(|(root, kind)| chunk_contents(root, kind).ok());
        let a = append_frame(app, 1, *seq, big, false);
        *seq += 1;
        oks.push(a.ok);
        acks.push(a);
        if let Some((root, kind)) = check {
            if let Err(e) = stream_check(root, kind, acks) {
                return (oks, Some(e));
            }
            // an archive is only overwritten when it is due for eviction: whatever was archived before this
            // append is still archived after it, except the chunk in the last slot when the slot before it was
            // occupied (a hole in the window - left behind by an interrupted rotation - is tolerated, not repaired
            // by throwing the oldest chunk away)
            if let (Some(before), Ok(after)) = (before, chunk_contents(root, kind)) {
                let managed = kind.managed();
                let last = managed.last().map(|(_, n)| n.clone());
                // (a window of one slot: whatever is in it is due whenever the active file is rolled)
                let before_last = if managed.len() >= 2 { Some(managed[managed.len() - 2].1.clone()) } else { None };
                for (name, c) in &before {
                    if name == ACTIVE || c.is_empty() || after.iter().any(|(_, x)| x == c) {
                        continue;
                    }
                    let due = Some(name) == last.as_ref() && before_last.as_ref().map(|b| before.iter().any(|(n, _)| n == b)).unwrap_or(true);
                    if !due {
                        return (oks, Some(("archive-lost-without-being-due-for-eviction".to_owned(), format!(
                            "{} ({} bytes) existed before an append and is gone after it, although {}; before: {:?}, after: {:?}",
                            name, c.len(), if Some(name) == last.as_ref() { "nothing was shifted into its slot" } else { "it was not in the last slot" },
                            before.iter().map(|(n, _)| n.clone()).collect::<Vec<_>>(), after.iter().map(|(n, _)| n.clone()).collect::<Vec<_>>()))));
                    }
                }
            }
        }
    }
    (oks, None)
}

fn one_history(rep: &mut Report, _rng: &mut Rng, idx: u64) {
    let thorough = rep.tier == "thorough";
    let cfg = Cfg::gen(crate::rng::subseed(rep.seed, "c08cfg", idx), thorough);
    let kind = cfg.roller();
    let fail = |rep: &mut Report, sig: &str, extra: Value, what: String| {
        rep.violation(&format!("C08:{}:{}", sig, if cfg.append_mode { "append-mode" } else { "truncate-mode" }),
            json!({"history": cfg.describe(), "point": extra, "what": what}));
    };

    // ---- clean run: counts the points and takes a crash image at each of them
    let sc = Scratch::new("c08");
    let live = sc.join("live");
    std::fs::create_dir_all(&live).unwrap();
    let clean = run_history(&cfg, &live, None, Some(sc.join("images")), None);
    for (sig, what) in &clean.problems {
        fail(rep, sig, json!(null), what.clone());
    }
    if clean.failed_append_seq.is_some() {
        fail(rep, "append-failed-without-fault", json!(null), "an append returned Err on a healthy directory".into());
        return;
    }
    drop(clean.app);
    rep.count("rotations_in_clean_runs", clean.rotations as i64);
    let big = cfg.limit as usize + 20;

    // ---- crash images
    for (p, rot, step, dir, acks_so_far, retained) in &clean.images {
        rep.count("crash_images_checked", 1);
        rep.case(&format!("{}|image|{}", cfg.describe(), p), true);
        let pt = json!({"kind": "process death", "point_index": p, "rotation": rot, "step": step});
        // acknowledged = everything that had returned; the in-flight record is a "maybe"
        let mut acks: Vec<Ack> = clean.acks.iter().cloned().collect();
        for (k, a) in acks.iter_mut().enumerate() {
            if k >= *acks_so_far {
                a.ok = false;
            }
        }
        acks.truncate((*acks_so_far + 1).min(acks.len()));
        if let Err(what) = check_retained(dir, &kind, retained) {
            fail(rep, "image:retained-chunk-lost", pt.clone(), what);
            continue;
        }
        if let Err((sig, what)) = stream_check(dir, &kind, &acks) {
            fail(rep, &format!("image:{}", sig), pt.clone(), what);
            continue;
        }
        // restart on the image and continue
        if !cfg.append_mode {
            forgive_active(dir, &mut acks);
        }
        match build(&cfg, dir, VecDeque::new()) {
            Err(e) => fail(rep, "image:restart-failed", pt.clone(), e),
            Ok(app) => {
                let mut seq = acks.iter().map(|a| a.id.seq + 1).max().unwrap_or(0).max(clean.next_seq) + 100;
                let (oks, early) = continue_appends_checked(&*app, &mut acks, &mut seq, 2 * cfg.count as usize + 2, big, Some((dir, &kind)));
                if let Some(pn) = take_panic() {
                    fail(rep, "image:panic-after-restart", pt.clone(), pn);
                    continue;
                }
                if let Some((sig, what)) = early {
                    fail(rep, &format!("image-continued:{}", sig), pt.clone(), format!("after {} append(s) on the restarted image: {}", oks.len(), what));
                    continue;
                }
                if oks.iter().any(|o| !o) {
                    fail(rep, "image:append-fails-after-restart", pt.clone(), format!("appends after restarting on the crash image returned {:?}", oks));
                    continue;
                }
                drop(app);
                if let Err((sig, what)) = stream_check(dir, &kind, &acks) {
                    fail(rep, &format!("image-continued:{}", sig), pt.clone(), what);
                }
                rep.count("crash_images_continued", 1);
            }
        }
    }

    // ---- faults: one run per hook point
    for p in 0..clean.points {
        // continuations: 0 same appender, 1 restarted appender, 2 obstruction removed at once + restart + many rotations
        for variant in 0..3 {
            let restart = variant >= 1;
            let immediate = variant == 2;
            rep.count("fault_runs", 1);
            rep.case(&format!("{}|fault|{}|{}", cfg.describe(), p, variant), true);
            let fs = Scratch::new("c08f");
            // alternative fault kinds where they apply: ENOSPC on a compressed archive, dangling link on a slot directory
            let devfull = (cfg.comp != Comp::None || cfg.pattern_rel.contains("{}/")) && (p + variant) % 2 == 0;
            // a third fault kind where it applies (it applies at the final step of the first rotation only)
            let dirfile = !devfull && cfg.pattern_rel.contains('/');
            let mut out = run_history_mode(&cfg, &fs.path, Some(p), None, None, devfull, dirfile);
            if out.used_dirfile {
                rep.count("faults_injected_as_a_file_in_place_of_the_archive_directory", 1);
            }
            if out.used_devfull {
                rep.count("faults_injected_as_enospc_on_the_archive", 1);
            }
            if out.used_dangling {
                rep.count("faults_injected_as_dangling_link_on_a_slot_directory", 1);
            }
            let cont_name = ["same appender", "restarted appender", "obstruction removed immediately, restarted appender, many rotations"][variant];
            let pt = json!({"kind": if out.used_dirfile { "filesystem fault (the archive directory is replaced by a regular file)" } else if out.used_dangling { "filesystem fault (the destination slot's directory name is taken by a dangling symbolic link)" } else if out.used_devfull { "filesystem fault (archive slot is a link to /dev/full: writes fail with ENOSPC)" } else { "filesystem fault (non-empty directory at the step's destination)" },
                "point_index": p,
                "continuation": cont_name});
            for (sig, what) in &out.problems {
                fail(rep, &format!("fault:{}", sig), pt.clone(), what.clone());
            }
            if out.fault_skipped {
                rep.count("fault_points_where_the_step_is_a_noop", 1);
                continue;
            }
            if out.planted.is_none() {
                rep.inconclusive("a fault run did not reach its hook point");
                continue;
            }
            if out.failed_append_seq.is_none() && out.used_dangling {
                // an implementation may legitimately get past a dangling link (replace it, or reach the slot some
                // other way) - then no step failed. What it may not do is carry on silently over a skipped shift.
                drop(out.app.take());
                if let Err(what) = check_retained(&fs.path, &kind, &out.retained) {
                    fail(rep, "fault-unreported:retained-chunk-lost", pt.clone(),
                        format!("every append returned Ok although a slot directory could not be made, and then: {}", what));
                    continue;
                }
                match stream_check(&fs.path, &kind, &out.acks) {
                    Err((sig, what)) => fail(rep, &format!("fault-unreported:{}", sig), pt.clone(),
                        format!("every append returned Ok although a slot directory could not be made, and then: {}", what)),
                    Ok(_) => rep.count("dangling_link_faults_survived_without_an_error_and_without_loss", 1),
                }
                continue;
            }
            if out.failed_append_seq.is_none() {
                fail(rep, "fault:append-did-not-report-the-failed-rotation", pt.clone(),
                    "the rotation step was made to fail, yet every append returned Ok".into());
                continue;
            }
            rep.count("faults_injected", 1);
            // immediately after the failing append
            if let Err((sig, what)) = stream_check(&fs.path, &kind, &out.acks) {
                fail(rep, &format!("fault:{}", sig), pt.clone(), what);
                continue;
            }
            // further appends with the obstacle still in place
            let mut seq = out.next_seq;
            let mut acks = out.acks.clone();
            let app = out.app.take().unwrap();
            if !immediate {
                let _ = continue_appends(&*app, &mut acks, &mut seq, 3, 12);
                if let Some(pn) = take_panic() {
                    fail(rep, "fault:panic-with-obstacle-in-place", pt.clone(), pn);
                    continue;
                }
                if let Err((sig, what)) = stream_check(&fs.path, &kind, &acks) {
                    fail(rep, &format!("fault-obstacle-in-place:{}", sig), pt.clone(), what);
                    continue;
                }
            }
            // obstruction gone
            // (a later rotation may have renamed the obstacle directory to a higher index)
            remove_obstacles(&fs.path, &kind);
            let app: Box<dyn Append> = if restart {
                drop(app);
                if !cfg.append_mode {
                    forgive_active(&fs.path, &mut acks);
                }
                match build(&cfg, &fs.path, VecDeque::new()) {
                    Ok(a) => a,
                    Err(e) => {
                        fail(rep, "fault:restart-failed", pt.clone(), e);
                        continue;
                    }
                }
            } else {
                app
            };
            let n_after = if immediate { 2 * cfg.count as usize + 3 } else { 4 };
            let (oks, early) = continue_appends_checked(&*app, &mut acks, &mut seq, n_after, big, Some((&fs.path, &kind)));
            if let Some(pn) = take_panic() {
                fail(rep, "fault:panic-after-recovery", pt.clone(), pn);
                continue;
            }
            if let Some((sig, what)) = early {
                fail(rep, &format!("fault-recovered:{}", sig), pt.clone(), format!("after {} append(s) following the recovery: {}", oks.len(), what));
                continue;
            }
            if oks.iter().any(|o| !o) {
                fail(rep, "fault:not-recovered-after-obstruction-removed", pt.clone(),
                    format!("appends after the obstruction was removed returned {:?} (true = Ok)", oks));
                continue;
            }
            drop(app);
            if let Err((sig, what)) = stream_check(&fs.path, &kind, &acks) {
                fail(rep, &format!("fault-recovered:{}", sig), pt.clone(), what);
                continue;
            }
            // "resumes writing AND rotating": every record of the continuation is larger than the limit, so the
            // active file holds at most the last one
            let active = std::fs::read(fs.path.join(ACTIVE)).unwrap_or_default();
            // (a scripted trigger that still has scripted decisions left does not fire on every record)
            let fires_every_time = !cfg.pre || restart;
            if let Ok(frames) = parse_stream(&active) {
                if fires_every_time && frames.len() > 1 {
                    fail(rep, "fault:rotation-did-not-resume-after-the-obstruction-was-removed", pt.clone(), format!(
                        "after {} appends of {} bytes (limit {}) the active file holds {} records: nothing is rotated any more, although every append returned Ok",
                        n_after, big, cfg.limit, frames.len()));
                    continue;
                }
            }
            rep.count("fault_runs_recovered", 1);
        }
    }
    rep.observe("window_sizes", &cfg.count.to_string());
    rep.observe("modes", &format!("{}{}", cfg.append_mode, cfg.pre));
    if idx < 2 {
        rep.sample(json!({"history": cfg.describe(), "hook_points": clean.points, "rotations": clean.rotations}));
    }
}

/// Thorough: a child really aborts inside the hook; what it leaves on disk must
/// equal the in-process crash image of the same (history, point).
fn real_crash(rep: &mut Report, _rng: &mut Rng, idx: u64) {
    let cfg_seed = crate::rng::subseed(rep.seed, "c08crash", idx);
    let cfg = Cfg::gen(cfg_seed, false);
    let sc = Scratch::new("c08x");
    let live = sc.join("live");
    std::fs::create_dir_all(&live).unwrap();
    let clean = run_history(&cfg, &live, None, Some(sc.join("images")), None);
    drop(clean.app);
    if clean.points == 0 {
        return;
    }
    let p = (idx as usize * 7) % clean.points;
    let child_root = sc.join("child");
    std::fs::create_dir_all(&child_root).unwrap();
    let args = vec!["c08crash".to_owned(), cfg_seed.to_string(), p.to_string(), child_root.to_str().unwrap().to_owned()];
    match run_child(&args, &[], Duration::from_secs(60)) {
        Err(e) => rep.inconclusive(&format!("cannot spawn crash child: {}", e)),
        Ok(o) if o.timed_out => rep.inconclusive("crash child timed out"),
        Ok(o) => {
            if o.status == Some(0) {
                rep.inconclusive("crash child exited normally instead of aborting");
                return;
            }
            let img = clean.images.iter().find(|m| m.0 == p).map(|m| m.3.clone());
            let Some(img) = img else { return };
            let a = dir_files(&img);
            let b = dir_files(&child_root);
            rep.count("real_crashes_compared", 1);
            rep.case(&format!("crash|{}|{}", cfg_seed, p), true);
            if a != b {
                rep.violation("C08:harness:image-differs-from-real-crash", json!({"history": cfg.describe(), "point": p,
                    "image_files": a.iter().map(|(k, v)| format!("{} ({})", k, v.len())).collect::<Vec<_>>(),
                    "crash_files": b.iter().map(|(k, v)| format!("{} ({})", k, v.len())).collect::<Vec<_>>()}));
            }
        }
    }
}

pub fn child_crash(args: &[String]) -> i32 {
    let seed: u64 = args[0].parse().unwrap();
    let p: usize = args[1].parse().unwrap();
    let root = PathBuf::from(&args[2]);
    hooks::install();
    let cfg = Cfg::gen(seed, false);
    let _ = run_history(&cfg, &root, None, None, Some(p));
    0
}

thread_local! {
    static APPEND_DEPTH: std::cell::Cell<u32> = const { std::cell::Cell::new(0) };
    /// set on the probing thread: whatever is logged from there is turned away at once
    static PROBING: std::cell::Cell<bool> = const { std::cell::Cell::new(false) };
}

/// Sits between the logger and the rolling appender in the global-logger child: an append that arrives on a thread
/// which is already inside this appender would block for ever on the appender's own lock - it is recorded and
/// turned away instead.
#[derive(Debug)]
struct ReentryGuard {
    inner: std::sync::Arc<log4rs::append::rolling_file::RollingFileAppender>,
    reentries: std::sync::Arc<std::sync::Mutex<Vec<String>>>,
}

impl Append for ReentryGuard {
    fn append(&self, record: &log::Record) -> anyhow::Result<()> {
        if PROBING.with(|p| p.get()) {
            return Ok(());
        }
        if APPEND_DEPTH.with(|d| d.get()) > 0 {
            // Logging from inside append() is harmless if the appender's lock has been released by then. Whether it
            // is still held is probed from another thread: while this thread waits here, nothing else can be holding it.
            let text = format!("{} {}: {}", record.level(), record.target(), record.args());
            let (inner, level, target, t2) = (self.inner.clone(), record.level(), record.target().to_owned(), text.clone());
            let (tx, rx) = std::sync::mpsc::channel();
            std::thread::spawn(move || {
                PROBING.with(|p| p.set(true));
                let _ = inner.append(&log::Record::builder().level(level).target(&target).args(format_args!("{}", t2)).build());
                let _ = tx.send(());
            });
            if rx.recv_timeout(std::time::Duration::from_secs(3)).is_err() {
                // the probe is stuck on the lock our own thread holds: on this thread the nested append would never return
                self.reentries.lock().unwrap().push(text);
            }
            return Ok(());
        }
        APPEND_DEPTH.with(|d| d.set(d.get() + 1));
        let r = self.inner.append(record);
        APPEND_DEPTH.with(|d| d.set(d.get() - 1));
        r
    }
    fn flush(&self) {}
}

/// Child: log4rs is the process-wide logger, the root logger writes to one rolling appender (the everyday
/// deployment), and a rotation fails.
pub fn child_global(args: &[String]) -> i32 {
    use log4rs::config::{Appender, Config, Root};
    let root = PathBuf::from(&args[0]);
    let final_step = args.get(1).map(|s| s == "1").unwrap_or(false);
    if final_step {
        // the newest archive slot is a non-empty directory: the final step of every rotation fails
        std::fs::create_dir_all(root.join("arch/app.0.log/obstacle")).unwrap();
        std::fs::write(root.join("arch/app.0.log/obstacle/keep"), b"x").unwrap();
    } else {
        // the archive directory is a regular file: every rotation fails before its first step
        std::fs::write(root.join("arch"), b"not a directory").unwrap();
    }
    let roller = log4rs::append::rolling_file::policy::compound::roll::fixed_window::FixedWindowRoller::builder()
        .build(root.join("arch/app.{}.log").to_str().unwrap(), if final_step { 1 } else { 2 }).unwrap();
    let inner = match build_appender(&root, true, Box::new(PatternEncoder::new("{m}{n}")), Box::new(SizeTrigger::new(30)), Box::new(roller)) {
        Ok(a) => a,
        Err(e) => {
            println!("RESULT {}", json!({"error": e.to_string()}));
            return 0;
        }
    };
    let reentries = std::sync::Arc::new(std::sync::Mutex::new(vec![]));
    let errors = std::sync::Arc::new(std::sync::Mutex::new(0u32));
    let e2 = errors.clone();
    let cfg = Config::builder()
        .appender(Appender::builder().build("file", Box::new(ReentryGuard { inner: std::sync::Arc::new(inner), reentries: reentries.clone() })))
        .build(Root::builder().appender("file").build(log::LevelFilter::Trace)).unwrap();
    if log4rs::config::init_config_with_err_handler(cfg, Box::new(move |_| *e2.lock().unwrap() += 1)).is_err() {
        println!("RESULT {}", json!({"error": "init_config failed"}));
        return 0;
    }
    for k in 0..4 {
        log::info!("record number {} is longer than the limit of thirty bytes", k);
    }
    println!("RESULT {}", json!({"appends_that_arrived_while_the_appender_was_busy_on_the_same_thread": *reentries.lock().unwrap(),
        "errors_handed_to_the_error_handler": *errors.lock().unwrap()}));
    0
}

fn global_logger_case(rep: &mut Report) {
    for mode in ["0", "1"] {
        global_logger_case_mode(rep, mode);
    }
}

fn global_logger_case_mode(rep: &mut Report, mode: &str) {
    if rep.only.is_some() {
        return;
    }
    let sc = Scratch::new("c08g");
    match crate::childproc::run_child(&["c08global".to_owned(), sc.path.to_str().unwrap().to_owned(), mode.to_owned()], &[], std::time::Duration::from_secs(120)) {
        Err(e) => rep.inconclusive(&format!("cannot spawn the global-logger child: {}", e)),
        Ok(o) if o.timed_out => rep.inconclusive("global-logger child timed out (watchdog)"),
        Ok(o) => {
            let text = String::from_utf8_lossy(&o.stdout);
            let Some(line) = text.lines().rev().find(|l| l.starts_with("RESULT ")) else {
                rep.inconclusive("global-logger child produced no result");
                return;
            };
            let v: Value = serde_json::from_str(&line[7..]).unwrap_or(Value::Null);
            if v.get("error").is_some() {
                rep.inconclusive(&format!("global-logger child: {}", v["error"]));
                return;
            }
            rep.case_enumerated(true);
            rep.count("global_logger_children", 1);
            let re = v["appends_that_arrived_while_the_appender_was_busy_on_the_same_thread"].as_array().cloned().unwrap_or_default();
            if !re.is_empty() {
                rep.violation("C08:failing-append-logs-through-the-global-logger-while-it-holds-its-own-lock", json!({
                    "what": "with log4rs installed as the process-wide logger and the root logger writing to this appender, the failing rotation                              logged through the `log` macros from inside append(): that nested append blocks for ever on the appender's lock, so the failing append never returns",
                    "nested_records": re}));
            } else if v["errors_handed_to_the_error_handler"].as_u64().unwrap_or(0) == 0 {
                rep.violation("C08:fault:append-did-not-report-the-failed-rotation:global-logger", json!({"observed": v}));
            }
        }
    }
}

pub fn run(rep: &mut Report) {
    hooks::install();
    rep.rule = "fault enumeration: for generated histories (window sizes 1-4 x base 0/1 x append/truncate x post-processing size trigger / \
        pre-processing scripted trigger, 8-21 appends, several rotations each) EVERY hook point (each archive shift, the final move) of \
        EVERY rotation is used (a) as a point of process death - the directory is copied at that instant, judged by the stream oracle and \
        the retained-chunk check, then a fresh appender continues on the copy - and (b) as the point of a filesystem fault - a non-empty \
        directory planted at the step's destination so that rename and copy fallback both fail; the append must return Err without \
        panicking, nothing acknowledged may be lost (immediately, with the obstacle in place, after its removal) and the same or a \
        restarted appender must rotate again; non-trivial = every (history, point, continuation); distinct = the same".to_owned();
    rep.assume("process death is modelled as a directory copy taken inside the hook (validated against real abort()ing children in the thorough tier); page-cache / power loss is out of scope (log4rs never fsyncs)");
    rep.assume("in truncate mode a restarted appender legitimately discards the active file at open; its records are then treated as unacknowledged");
    rep.assume("faults are obstacles at the destination of a step; other fault kinds (EIO, ENOSPC mid-copy) are not injected");
    let thorough = rep.tier == "thorough";
    run_cases(rep, "history", if thorough { 600 } else { 120 }, one_history);
    if thorough {
        run_cases(rep, "realcrash", 40, real_crash);
    }
    global_logger_case(rep);
    // a failed rotation followed by further rotations, against log4rs built with `background_rotation`
    crate::subrun::merge(rep, "L4V_BIN_BGROT", "C08BG", "background_rotation");
    rep.exhaustive = Some(false);
    rep.set_extra("enumeration", json!("exhaustive over the hook points of each generated history; histories are sampled"));
    rep.require(rep.counter("crash_images_checked") > 100, "fewer than 100 crash images");
    rep.require(rep.counter("faults_injected") > 100, "fewer than 100 faults injected");
    rep.require(rep.set_size("window_sizes") >= 4, "not all window sizes 1-4 were exercised");
}


// ------------------------------------------------------------ background_rotation: a failed rotation, then more

/// One append on a helper thread; `None` = it did not return within the watchdog.
fn append_watched(app: &std::sync::Arc<log4rs::append::rolling_file::RollingFileAppender>, tid: u32, seq: u32, len: usize) -> Option<bool> {
    let (tx, rx) = std::sync::mpsc::channel();
    let app = app.clone();
    std::thread::spawn(move || {
        let a = append_frame(&*app, tid, seq, len, true);
        let _ = tx.send(a.ok);
    });
    rx.recv_timeout(Duration::from_secs(90)).ok()
}

/// Runs in the harness binary built with log4rs' `background_rotation` feature (see `subrun`): the rotation work
/// happens on a worker thread, so a failing step is not reported by the append that asked for it - but the
/// appender must still accept the following records and rotate again once the obstruction is gone.
pub fn run_background(rep: &mut Report) {
    hooks::install();
    let n = if rep.tier == "thorough" { 48 } else { 12 };
    let saved = std::env::var("L4V_JOBS").ok();
    std::env::set_var("L4V_JOBS", "4");
    run_cases(rep, "bgfault", n, |rep, rng, idx| {
        let sc = Scratch::new("c08bg");
        let limit = *rng.pick(&[0u64, 10, 120]);
        let count = *rng.pick(&[1u32, 2, 3]);
        let during = 2 + rng.usize_below(5);
        let after = 4 + rng.usize_below(8);
        let desc = json!({"size_limit": limit, "window": count, "appends_with_the_obstacle": during, "appends_after_its_removal": after,
            "background_rotation": true, "obstacle": "a regular file where the archive directory has to be"});
        // the archives live in <dir>/arch/, and a regular file of that name is in the way
        let obstacle = sc.path.join("arch");
        std::fs::write(&obstacle, b"in the way").unwrap();
        let kind = RollerKind::Window { base: 0, count, comp: Comp::None, pattern_rel: "arch/app.{}.log".into() };
        let app = match kind.build(&sc.path).map_err(|e| e.to_string()).and_then(|r| {
            build_appender(&sc.path, true, Box::new(ChunkEnc { pieces: 1 }), Box::new(SizeTrigger::new(limit)), r).map_err(|e| e.to_string())
        }) {
            Ok(a) => std::sync::Arc::new(a),
            Err(err) => {
                rep.violation("C08:bg:build-failed", json!({"run": desc, "error": err}));
                return;
            }
        };
        rep.case(&format!("{}|{}", desc, idx), true);
        rep.count("bg_fault_runs", 1);
        let mut seq = 0u32;
        for phase in 0..2 {
            if phase == 1 {
                // let the worker of the last failed rotation finish, then clear the way
                std::thread::sleep(Duration::from_millis(30));
                std::fs::remove_file(&obstacle).unwrap();
            }
            for _ in 0..(if phase == 0 { during } else { after }) {
                match append_watched(&app, 1, seq, 130) {
                    None => {
                        rep.violation(if phase == 0 { "C08:bg:append-blocks-after-a-failed-rotation" } else { "C08:bg:append-blocks-after-the-obstacle-is-gone" },
                            json!({"run": desc, "record": seq, "what": "the append did not return within 90 s; nothing but a failed background rotation preceded it"}));
                        // the blocked thread (and the appender it holds) is abandoned
                        std::mem::forget(app);
                        return;
                    }
                    Some(ok) => {
                        rep.count("bg_fault_appends", 1);
                        if phase == 1 && !ok && seq as usize > during + 1 {
                            rep.violation("C08:bg:append-fails-after-the-obstacle-is-gone", json!({"run": desc, "record": seq}));
                            return;
                        }
                    }
                }
                seq += 1;
                if rng.chance(1, 3) {
                    std::thread::sleep(Duration::from_millis(2));
                }
            }
        }
        // rotation has resumed: an archive appears (the workers are detached threads, so wait for them)
        let mut resumed = false;
        for _ in 0..6000 {
            if sc.path.join("arch").join("app.0.log").is_file() {
                resumed = true;
                break;
            }
            std::thread::sleep(Duration::from_millis(10));
        }
        if resumed {
            rep.count("bg_rotation_resumed", 1);
        } else {
            rep.violation("C08:bg:rotation-does-not-resume", json!({"run": desc,
                "what": "no archive was produced within 60 s after the obstacle was removed although every later append asked for a rotation",
                "files": dir_files(&sc.path).keys().cloned().collect::<Vec<_>>()}));
        }
        drop(app);
        std::thread::sleep(Duration::from_millis(20));
    });
    match saved {
        Some(v) => std::env::set_var("L4V_JOBS", v),
        None => std::env::remove_var("L4V_JOBS"),
    }
    rep.require(rep.counter("bg_fault_runs") >= 6, "fewer than 6 background-rotation fault runs");
}
