//! C12 — JSON encoder: one record, one line, and the fields round-trip exactly.

use crate::par::run_cases;
use crate::pattern_model::{split_pieces, CapW, PanickingMsg, Pieces};
use crate::report::Report;
use crate::rng::Rng;
use crate::routing::LEVELS;
use crate::trap;
use chrono::{DateTime, Utc};
use log::Record;
use log4rs::encode::json::JsonEncoder;
use log4rs::encode::Encode;
use serde_json::json;
use std::collections::BTreeMap;

// ---------------------------------------------------------- RFC 8259 parser

#[derive(Clone, Debug, PartialEq)]
pub enum J {
    Null,
    Bool(bool),
    Num(String),
    Str(String),
    Arr(Vec<J>),
    Obj(Vec<(String, J)>),
}

struct P<'a> {
    s: &'a [u8],
    i: usize,
}

impl<'a> P<'a> {
    fn ws(&mut self) {
        while self.i < self.s.len() && matches!(self.s[self.i], b' ' | b'\t' | b'\n' | b'\r') {
            self.i += 1;
        }
    }
    fn lit(&mut self, l: &str, v: J) -> Result<J, String> {
        if self.s[self.i..].starts_with(l.as_bytes()) {
            self.i += l.len();
            Ok(v)
        } else {
            Err(format!("bad literal at {}", self.i))
        }
    }
    fn hex4(&mut self) -> Result<u32, String> {
        if self.i + 4 > self.s.len() {
            return Err("short \\u escape".into());
        }
        let h = std::str::from_utf8(&self.s[self.i..self.i + 4]).map_err(|_| "bad \\u")?;
        let v = u32::from_str_radix(h, 16).map_err(|_| format!("bad \\u escape at {}", self.i))?;
        self.i += 4;
        Ok(v)
    }
    fn string(&mut self) -> Result<String, String> {
        if self.s.get(self.i) != Some(&b'"') {
            return Err(format!("expected string at {}", self.i));
        }
        self.i += 1;
        let mut out: Vec<u8> = vec![];
        loop {
            let Some(&b) = self.s.get(self.i) else { return Err("unterminated string".into()) };
            self.i += 1;
            match b {
                b'"' => break,
                0..=0x1f => return Err(format!("raw control character 0x{:02x} inside a string", b)),
                b'\\' => {
                    let Some(&e) = self.s.get(self.i) else { return Err("dangling backslash".into()) };
                    self.i += 1;
                    match e {
                        b'"' => out.push(b'"'),
                        b'\\' => out.push(b'\\'),
                        b'/' => out.push(b'/'),
                        b'b' => out.push(8),
                        b'f' => out.push(12),
                        b'n' => out.push(b'\n'),
                        b'r' => out.push(b'\r'),
                        b't' => out.push(b'\t'),
                        b'u' => {
                            let mut cp = self.hex4()?;
                            if (0xD800..0xDC00).contains(&cp) {
                                if self.s.get(self.i) == Some(&b'\\') && self.s.get(self.i + 1) == Some(&b'u') {
                                    self.i += 2;
                                    let lo = self.hex4()?;
                                    if !(0xDC00..0xE000).contains(&lo) {
                                        return Err("bad low surrogate".into());
                                    }
                                    cp = 0x10000 + ((cp - 0xD800) << 10) + (lo - 0xDC00);
                                } else {
                                    return Err("lone high surrogate".into());
                                }
                            } else if (0xDC00..0xE000).contains(&cp) {
                                return Err("lone low surrogate".into());
                            }
                            let c = char::from_u32(cp).ok_or("bad code point")?;
                            let mut buf = [0u8; 4];
                            out.extend_from_slice(c.encode_utf8(&mut buf).as_bytes());
                        }
                        _ => return Err(format!("bad escape \\{}", e as char)),
                    }
                }
                _ => out.push(b),
            }
        }
        String::from_utf8(out).map_err(|_| "string is not UTF-8".into())
    }
    fn number(&mut self) -> Result<J, String> {
        let st = self.i;
        if self.s.get(self.i) == Some(&b'-') {
            self.i += 1;
        }
        let d0 = self.i;
        while self.i < self.s.len() && self.s[self.i].is_ascii_digit() {
            self.i += 1;
        }
        if self.i == d0 {
            return Err(format!("bad number at {}", st));
        }
        if self.s[d0] == b'0' && self.i - d0 > 1 {
            return Err("leading zero".into());
        }
        if self.s.get(self.i) == Some(&b'.') {
            self.i += 1;
            let f0 = self.i;
            while self.i < self.s.len() && self.s[self.i].is_ascii_digit() {
                self.i += 1;
            }
            if self.i == f0 {
                return Err("bad fraction".into());
            }
        }
        if matches!(self.s.get(self.i), Some(b'e') | Some(b'E')) {
            self.i += 1;
            if matches!(self.s.get(self.i), Some(b'+') | Some(b'-')) {
                self.i += 1;
            }
            let e0 = self.i;
            while self.i < self.s.len() && self.s[self.i].is_ascii_digit() {
                self.i += 1;
            }
            if self.i == e0 {
                return Err("bad exponent".into());
            }
        }
        Ok(J::Num(String::from_utf8_lossy(&self.s[st..self.i]).into_owned()))
    }
    fn value(&mut self, depth: usize) -> Result<J, String> {
        if depth > 64 {
            return Err("too deep".into());
        }
        self.ws();
        match self.s.get(self.i) {
            None => Err("unexpected end".into()),
            Some(b'n') => self.lit("null", J::Null),
            Some(b't') => self.lit("true", J::Bool(true)),
            Some(b'f') => self.lit("false", J::Bool(false)),
            Some(b'"') => Ok(J::Str(self.string()?)),
            Some(b'[') => {
                self.i += 1;
                let mut v = vec![];
                self.ws();
                if self.s.get(self.i) == Some(&b']') {
                    self.i += 1;
                    return Ok(J::Arr(v));
                }
                loop {
                    v.push(self.value(depth + 1)?);
                    self.ws();
                    match self.s.get(self.i) {
                        Some(b',') => self.i += 1,
                        Some(b']') => {
                            self.i += 1;
                            return Ok(J::Arr(v));
                        }
                        _ => return Err(format!("bad array at {}", self.i)),
                    }
                }
            }
            Some(b'{') => {
                self.i += 1;
                let mut v = vec![];
                self.ws();
                if self.s.get(self.i) == Some(&b'}') {
                    self.i += 1;
                    return Ok(J::Obj(v));
                }
                loop {
                    self.ws();
                    let k = self.string()?;
                    self.ws();
                    if self.s.get(self.i) != Some(&b':') {
                        return Err(format!("expected ':' at {}", self.i));
                    }
                    self.i += 1;
                    let val = self.value(depth + 1)?;
                    v.push((k, val));
                    self.ws();
                    match self.s.get(self.i) {
                        Some(b',') => self.i += 1,
                        Some(b'}') => {
                            self.i += 1;
                            return Ok(J::Obj(v));
                        }
                        _ => return Err(format!("bad object at {}", self.i)),
                    }
                }
            }
            Some(_) => self.number(),
        }
    }
}

/// Parses exactly one JSON value spanning the whole input.
pub fn parse_json(s: &[u8]) -> Result<J, String> {
    let mut p = P { s, i: 0 };
    let v = p.value(0)?;
    p.ws();
    if p.i != s.len() {
        return Err(format!("trailing bytes after the JSON value at offset {}", p.i));
    }
    Ok(v)
}

// ------------------------------------------------------------ workload

const PIECES: [&str; 43] = [
    "\u{85}", "\u{85}x", "\u{a0}", "", "a", "hello world", "\"", "\\", "\\\"", "\n", "\r", "\r\n", "\t", "\u{0}", "\u{1}", "\u{8}", "\u{c}", "\u{1b}", "\u{1f}",
    "\u{7f}", "\u{80}", "\u{2028}", "\u{2029}", "\u{feff}", "\u{d7ff}", "\u{e000}", "\u{ffff}", "\u{10000}", "𝄞", "\u{10ffff}",
    "é", "日本", "\",\"level\":\"ERROR", "\"}\n{\"message\":\"forged", "\\u0000", "\\n", "/", "</script>", "{", "}", "[]", ":", ",",
];

const LONG_RUNS: [usize; 12] = [63, 64, 127, 128, 255, 256, 257, 1023, 1024, 1025, 4097, 9000];

fn gen_s(rng: &mut Rng, max: usize, no_nul: bool) -> String {
    let n = rng.usize_below(max + 1);
    let mut s = String::new();
    if rng.chance(1, 12) {
        // a long run that needs no escaping (buffer boundaries of any staging layer)
        let len = *rng.pick(&LONG_RUNS[..]);
        let c = *rng.pick(&['b', 'é', '𝄞']);
        s.extend(std::iter::repeat(c).take(len));
    }
    for _ in 0..n {
        if rng.chance(1, 8) {
            // any scalar value, biased towards the blocks where escaping rules change
            let cp = match rng.below(5) {
                0 => rng.below(0x100),
                1 => 0x2000 + rng.below(0x70),
                2 => 0xfff0 + rng.below(0x20),
                3 => 0xd7f0 + rng.below(0x820),
                _ => rng.below(0x110000),
            } as u32;
            if let Some(c) = char::from_u32(cp) {
                if !(no_nul && c == '\u{0}') {
                    s.push(c);
                    if rng.chance(1, 2) {
                        s.push('z');
                    }
                }
            }
            continue;
        }
        let p = *rng.pick(&PIECES[..]);
        if no_nul && p.contains('\u{0}') {
            continue;
        }
        s.push_str(p);
    }
    s
}

struct Case {
    level: log::Level,
    message: String,
    target: String,
    module: Option<String>,
    file: Option<String>,
    line: Option<u32>,
    mdc: BTreeMap<String, String>,
}

fn gen_case(rng: &mut Rng) -> Case {
    let opt = |rng: &mut Rng| if rng.chance(1, 3) { None } else { Some(gen_s(rng, 4, false)) };
    let mut mdc = BTreeMap::new();
    for _ in 0..rng.usize_below(4) {
        mdc.insert(gen_s(rng, 3, false), gen_s(rng, 3, false));
    }
    if rng.chance(1, 200) {
        // many entries: exactly / around the sizes where a narrow counter wraps
        let n = *rng.pick(&[255usize, 256, 257, 512, 1024]);
        mdc.clear();
        for k in 0..n {
            mdc.insert(format!("k{}", k), if k % 7 == 0 { gen_s(rng, 2, false) } else { "v".to_owned() });
        }
    }
    Case {
        level: *rng.pick(&LEVELS),
        message: gen_s(rng, 6, false),
        target: gen_s(rng, 4, false),
        module: opt(rng),
        file: opt(rng),
        line: if rng.chance(1, 3) { None } else { Some(*rng.pick(&[0u32, 1, 42, 65535, u32::MAX])) },
        mdc,
    }
}

/// A message that, while being formatted, encodes another record through the same JSON encoder into its own
/// buffer, then writes its pieces.
struct NestingPieces<'a> {
    enc: &'a JsonEncoder,
    pieces: &'a [String],
    inner: std::cell::RefCell<Option<Result<Vec<u8>, String>>>,
}

impl<'a> std::fmt::Display for NestingPieces<'a> {
    fn fmt(&self, f: &mut std::fmt::Formatter<'_>) -> std::fmt::Result {
        let mut w = CapW::new();
        let r = self.enc.encode(&mut w, &Record::builder().level(log::Level::Warn).target("nested")
            .args(format_args!("nested {} é", 1)).build());
        *self.inner.borrow_mut() = Some(match r {
            Ok(()) => Ok(w.bytes),
            Err(e) => Err(e.to_string()),
        });
        for p in self.pieces {
            f.write_str(p)?;
        }
        Ok(())
    }
}

fn check_case(rep: &mut Report, rng: &mut Rng, c: &Case, thread_name: Option<&str>) {
    log_mdc::clear();
    for (k, v) in &c.mdc {
        log_mdc::insert(k.clone(), v.clone());
    }
    let pieces = split_pieces(&c.message, rng);
    let mut w = if rng.chance(1, 2) { CapW::short(rng.next_u64()) } else { CapW::new() };
    let enc = JsonEncoder::new();
    if rng.chance(1, 5) {
        // a record whose write fails half-way must not leak into the next record encoded on this thread
        let mut failing = CapW::new();
        failing.budget = Some(rng.usize_below(40));
        let _ = trap::catch(|| {
            enc.encode(&mut failing, &Record::builder().level(log::Level::Error).target("FAILED-RECORD")
                .args(format_args!("this record must never show up {}", 1)).build())
        });
        rep.count("records_preceded_by_a_failed_encode", 1);
    }
    if rng.chance(1, 6) {
        // nor may a record whose message panics while it is being formatted (the panic is caught by the caller)
        let mut w0 = CapW::new();
        let _ = trap::catch(|| enc.encode(&mut w0, &Record::builder().level(log::Level::Error).target("PANICKED-RECORD")
            .args(format_args!("{}", PanickingMsg)).build()));
        rep.count("records_preceded_by_a_panicking_message", 1);
    }
    let t0 = Utc::now();
    let nesting = rng.chance(1, 10);
    let nest = NestingPieces { enc: &enc, pieces: &pieces, inner: Default::default() };
    let r = trap::catch(|| {
        let p = Pieces(&pieces);
        let d: &dyn std::fmt::Display = if nesting { &nest } else { &p };
        enc.encode(
            &mut w,
            &Record::builder()
                .level(c.level)
                .target(&c.target)
                .module_path(c.module.as_deref())
                .file(c.file.as_deref())
                .line(c.line)
                .args(format_args!("{}", d))
                .build(),
        )
    });
    let t1 = Utc::now();
    if nesting {
        rep.count("records_whose_message_encodes_another_record", 1);
        if let Some(inner) = nest.inner.borrow().clone() {
            let what = match &inner {
                Err(e) => Some(format!("nested encode returned an error: {}", e)),
                Ok(b) => {
                    let one_line = b.last() == Some(&b'\n') && b.iter().filter(|x| **x == b'\n').count() == 1;
                    match parse_json(&b[..b.len().saturating_sub(1)]) {
                        _ if !one_line => Some(format!("nested record is not one line ending in a newline: {:?}", String::from_utf8_lossy(b))),
                        Err(e) => Some(format!("nested record is not a JSON value: {}", e)),
                        Ok(_) => None,
                    }
                }
            };
            if let Some(what) = what {
                rep.violation("C12:record-encoded-while-another-is-being-encoded", json!({"what": what, "outer_message": c.message}));
                return;
            }
        }
    }
    log_mdc::clear();
    let desc = json!({"message": c.message, "target": c.target, "module_path": c.module, "file": c.file, "line": c.line,
        "level": c.level.to_string(), "mdc": c.mdc, "thread": thread_name});
    let bad = |rep: &mut Report, sig: &str, what: String, bytes: &[u8]| {
        rep.violation(sig, json!({"record": desc, "what": what, "output": String::from_utf8_lossy(bytes)}));
    };
    match r {
        Err(p) => return bad(rep, &format!("C12:panic:{}", if p.in_repo() { p.site() } else { "std".into() }), p.message, &[]),
        Ok(Err(e)) => return bad(rep, "C12:encode-returned-error", e.to_string(), &w.bytes),
        Ok(Ok(())) => {}
    }
    rep.count("records_encoded", 1);
    let b = &w.bytes;
    if b.last() != Some(&b'\n') {
        return bad(rep, "C12:no-trailing-newline", "output does not end with a newline".into(), b);
    }
    let body = &b[..b.len() - 1];
    if let Some(pos) = body.iter().position(|x| *x < 0x20) {
        return bad(rep, "C12:raw-control-character", format!("raw byte 0x{:02x} at offset {} inside the line", body[pos], pos), b);
    }
    let v = match parse_json(body) {
        Ok(v) => v,
        Err(e) => return bad(rep, "C12:not-one-json-value", e, b),
    };
    match serde_json::from_slice::<serde_json::Value>(body) {
        Ok(_) => {}
        Err(e) => return bad(rep, "C12:serde_json-rejects-output", e.to_string(), b),
    }
    let J::Obj(fields) = v else { return bad(rep, "C12:not-an-object", "top-level value is not an object".into(), b) };
    let mut seen: BTreeMap<String, J> = BTreeMap::new();
    for (k, val) in fields {
        if seen.insert(k.clone(), val).is_some() {
            return bad(rep, "C12:duplicate-key", format!("key `{}` occurs twice", k), b);
        }
    }
    let s = |x: &str| J::Str(x.to_owned());
    let mut want: BTreeMap<String, J> = BTreeMap::new();
    want.insert("message".into(), s(&c.message));
    want.insert("level".into(), s(&c.level.to_string()));
    want.insert("target".into(), s(&c.target));
    if let Some(m) = &c.module {
        want.insert("module_path".into(), s(m));
    }
    if let Some(f) = &c.file {
        want.insert("file".into(), s(f));
    }
    if let Some(l) = c.line {
        want.insert("line".into(), J::Num(l.to_string()));
    }
    want.insert("thread".into(), thread_name.map(s).unwrap_or(J::Null));
    want.insert("thread_id".into(), J::Num(thread_id::get().to_string()));
    let mut mdc: Vec<(String, J)> = c.mdc.iter().map(|(k, v)| (k.clone(), s(v))).collect();
    mdc.sort_by(|a, b| a.0.cmp(&b.0));
    // time is checked separately
    let time = seen.remove("time");
    let got_mdc = seen.remove("mdc");
    for (k, wv) in &want {
        match seen.get(k) {
            None => return bad(rep, &format!("C12:field-missing:{}", k), format!("key `{}` is missing", k), b),
            Some(gv) if gv != wv => {
                return bad(rep, &format!("C12:field-differs:{}", k), format!("key `{}`: expected {:?}, got {:?}", k, wv, gv), b)
            }
            _ => {}
        }
    }
    for k in seen.keys() {
        if !want.contains_key(k) {
            let known = ["message", "level", "target", "module_path", "file", "line", "thread", "thread_id"];
            let label = if known.contains(&k.as_str()) { k.as_str() } else { "other" };
            return bad(rep, &format!("C12:unexpected-key:{}", label),
                format!("key `{}` must be omitted for this record (absent optional field) or is unknown", k), b);
        }
    }
    match got_mdc {
        Some(J::Obj(mut g)) => {
            g.sort_by(|a, b| a.0.cmp(&b.0));
            if g != mdc {
                return bad(rep, "C12:mdc-differs", format!("mdc: expected {:?}, got {:?}", mdc, g), b);
            }
            rep.count("mdc_entries_compared", mdc.len() as i64);
        }
        other => return bad(rep, "C12:mdc-missing", format!("mdc is {:?}", other), b),
    }
    match time {
        Some(J::Str(t)) => match DateTime::parse_from_rfc3339(&t) {
            Ok(d) => {
                let d = d.with_timezone(&Utc);
                if d < t0 || d > t1 {
                    return bad(rep, "C12:time-outside-bracket", format!("time {} not within the call bracket", t), b);
                }
            }
            Err(_) => return bad(rep, "C12:time-not-rfc3339", format!("time `{}`", t), b),
        },
        other => return bad(rep, "C12:time-missing", format!("time is {:?}", other), b),
    }
    rep.count("fields_compared", want.len() as i64 + 2);
}

pub fn run(rep: &mut Report) {
    crate::c09::set_test_zone();
    rep.rule = "random records whose message, target, module path, file, thread name and MDC keys/values are concatenations of \
        hostile pieces (quotes, backslashes, CR/LF/TAB, all kinds of C0 controls, U+007F, U+2028/9, BOM, surrogate-adjacent and astral \
        code points, look-alike JSON that tries to forge a second line), optional fields present or absent, all levels, named and \
        unnamed threads, message Display emitting several pieces, sinks with short writes; the line is parsed with the harness's own \
        RFC 8259 parser (serde_json as second opinion) and compared field by field; non-trivial = some string needs escaping; \
        distinct = distinct record".to_owned();
    rep.assume("'control character' = U+0000..U+001F (the JSON definition); thread names contain no NUL (std forbids it)");
    let n = if rep.tier == "thorough" { 600_000 } else { 100_000 };
    run_cases(rep, "record", n, |rep, rng, idx| {
        let c = gen_case(rng);
        let needs_escape = |s: &str| s.chars().any(|ch| (ch as u32) < 0x20 || ch == '"' || ch == '\\');
        let nontrivial = needs_escape(&c.message) || needs_escape(&c.target) || c.mdc.iter().any(|(k, v)| needs_escape(k) || needs_escape(v));
        rep.case(&format!("{:?}|{:?}|{:?}|{:?}|{:?}|{:?}", c.message, c.target, c.module, c.file, c.line, c.mdc), nontrivial);
        if c.module.is_none() || c.file.is_none() || c.line.is_none() {
            rep.count("records_with_absent_optional_field", 1);
        }
        if idx % 6 == 1 {
            let name = gen_s(rng, 3, true);
            let mut r2 = rng.clone();
            let mut local = rep.shard();
            let ok = std::thread::scope(|s| {
                std::thread::Builder::new()
                    .name(name.clone())
                    .spawn_scoped(s, || check_case(&mut local, &mut r2, &c, Some(&name)))
                    .map(|h| h.join().is_ok())
                    .unwrap_or(false)
            });
            if !ok {
                rep.inconclusive("named worker thread failed");
            }
            local.evaluations = 0;
            let cur = rep.cur_case.clone();
            // violations recorded in the shard carry no case id: re-attach
            for v in local.violations.drain(..) {
                let mut d = v.detail.clone();
                if let Some((l, i)) = &cur {
                    d["case"] = json!({"label": l, "index": i});
                }
                rep.violations.push(crate::report::Violation { signature: v.signature, detail: d });
            }
            rep.merge(local);
            rep.count("records_on_named_threads", 1);
        } else {
            check_case(rep, rng, &c, None);
        }
        if idx < 2 {
            rep.sample(json!({"message": c.message, "target": c.target, "module_path": c.module, "mdc": c.mdc}));
        }
    });
    rep.require(rep.counter("records_encoded") > 1000, "fewer than 1000 records encoded");
    rep.require(rep.counter("mdc_entries_compared") > 100, "too few MDC entries compared");
}
